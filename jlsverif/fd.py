"""FD engine: finite-domain (set-of-constants) abstract evaluation of integer
expressions and of small pure integer helper functions over the exported CFG.

A rule binds the enumerated variables (sample width, data type, byte residue,
...) to each element of a finite set, evaluates one expression at one program
point under C integer semantics taken from the exported types, and lists the
elements for which its predicate fails.  Anything that is not a compile-time
constant, an enumerated variable or a pure helper of those evaluates to TOP
(None), and a rule that needs it reports "not decided", never a verdict.
"""
from .ir import strip_casts, const_of, kids, show


class Top(Exception):
    pass


def wrap(v, t):
    if t is None or len(t) < 2:
        return v
    k = t[0]
    if k == 'e':
        try:
            bits = int(t[1:t.index(':')])
        except ValueError:
            return v
        k = 'i'
    elif k in 'ui' and t[1:].isdigit():
        bits = int(t[1:])
    else:
        return v
    if bits == 1 and k == 'u':
        return 1 if v else 0
    m = 1 << bits
    v &= m - 1
    if k == 'i' and v >= m >> 1:
        v -= m
    return v


class FD:
    def __init__(self, P, max_steps=200000):
        self.P = P
        self.max_steps = max_steps

    def ev(self, fn, e, env, depth=0):
        """Value of e under env (name or path string -> int).  Raises Top."""
        if e is None:
            raise Top()
        op = e.get('op')
        t = e.get('t')
        if op in ('lit',):
            return const_of(e)
        if op == 'sizeof' or op == 'offsetof':
            c = const_of(e)
            if c is None:
                raise Top()
            return c
        if op == 'ref':
            if e.get('rk') == 'enum':
                return const_of(e)
            if e['name'] in env:
                return env[e['name']]
            raise Top()
        if op == 'member' or op == 'sub':
            from .ir import path_of
            p = path_of(e)
            if p is not None and str(p) in env:
                return env[str(p)]
            if fn is not None:
                p2 = fn.path(e)
                if p2 is not None and str(p2) in env:
                    return env[str(p2)]
            raise Top()
        if op == 'cast':
            v = self.ev(fn, e['k'][0], env, depth)
            if t and t[0] == 'f':
                return v
            return wrap(v, t)
        if op == 'un':
            o = e['o']
            if o == '*':
                # a load through a pointer: known only when the caller bound this very expression
                k_ = 'deref:' + show(strip_casts(e['k'][0]))
                if k_ in env:
                    return wrap(env[k_], t)
                raise Top()
            if o in ('-', '~', '!', '+'):
                v = self.ev(fn, e['k'][0], env, depth)
                r = {'-': -v, '~': ~v, '!': 0 if v else 1, '+': v}[o]
                return wrap(r, t)
            raise Top()
        if op == 'cond':
            c = self.ev(fn, e['k'][0], env, depth)
            return self.ev(fn, e['k'][1] if c else e['k'][2], env, depth)
        if op == 'bin':
            o = e['o']
            if o == '&&':
                return 1 if (self.ev(fn, e['k'][0], env, depth) and self.ev(fn, e['k'][1], env, depth)) else 0
            if o == '||':
                return 1 if (self.ev(fn, e['k'][0], env, depth) or self.ev(fn, e['k'][1], env, depth)) else 0
            if o == ',':
                return self.ev(fn, e['k'][1], env, depth)
            a = self.ev(fn, e['k'][0], env, depth)
            b = self.ev(fn, e['k'][1], env, depth)
            if o in ('/', '%'):
                if b == 0:
                    raise ZeroDivisionError()
                q = abs(a) // abs(b)
                if (a < 0) != (b < 0):
                    q = -q
                r = q if o == '/' else a - q * b
            elif o == '+':
                r = a + b
            elif o == '-':
                r = a - b
            elif o == '*':
                r = a * b
            elif o == '&':
                r = a & b
            elif o == '|':
                r = a | b
            elif o == '^':
                r = a ^ b
            elif o == '<<':
                r = a << (b & 63)
            elif o == '>>':
                r = a >> (b & 63)
            elif o == '<':
                r = int(a < b)
            elif o == '<=':
                r = int(a <= b)
            elif o == '>':
                r = int(a > b)
            elif o == '>=':
                r = int(a >= b)
            elif o == '==':
                r = int(a == b)
            elif o == '!=':
                r = int(a != b)
            else:
                raise Top()
            return wrap(r, t)
        if op == 'call':
            g = self.P.functions.get(e.get('callee'))
            if g is None or depth > 6:
                raise Top()
            args = []
            extra = {}
            for i_, a in enumerate(kids(e)):
                try:
                    args.append(self.ev(fn, a, env, depth))
                except Top:
                    # an object handed on by pointer: the callee sees the fields the caller knows
                    a0_ = strip_casts(a)
                    if not (a0_.get('op') == 'ref' and (a0_.get('t') or '').startswith('p') and i_ < len(g.params)):
                        raise
                    args.append(None)
                    pre_ = a0_['name'] + '.'
                    for k_, v_ in env.items():
                        if isinstance(k_, str) and k_.startswith(pre_):
                            extra[g.params[i_]['name'] + '.' + k_[len(pre_):]] = v_
            return self.call(g, args, depth + 1, extra)
        raise Top()

    def call(self, g, args, depth=0, extra_env=None):
        """Concrete evaluation of a pure integer helper on constants."""
        env = dict(extra_env or {})
        for p, a in zip(g.params, args):
            if a is not None:
                env[p['name']] = wrap(a, p['t'])
        b = g.entry
        steps = 0
        while True:
            steps += 1
            if steps > self.max_steps:
                raise Top()
            for ev in b.events:
                if ev.k == 'decl':
                    if ev.e is not None:
                        try:
                            env[ev.name] = wrap(self.ev(g, ev.e, env, depth), ev.t)
                        except Top:
                            env.pop(ev.name, None)
                elif ev.k == 'store':
                    lhs, rhs, o = ev.store_parts()
                    l0 = strip_casts(lhs)
                    if l0.get('op') != 'ref' or l0.get('rk') not in ('local', 'param'):
                        if l0.get('op') in ('sub', 'member') or (l0.get('op') == 'un' and l0.get('o') == '*'):
                            # a store to memory: a field the caller knew is no longer known, other loads are Top anyway
                            pth_ = g.path(l0)
                            if pth_ is not None:
                                env.pop(str(pth_), None)
                            continue
                        raise Top()          # not pure
                    name = l0['name']
                    if rhs is None:
                        if name not in env:
                            raise Top()
                        env[name] = wrap(env[name] + (1 if '++' in o else -1), l0.get('t'))
                    elif o == '=':
                        env[name] = wrap(self.ev(g, rhs, env, depth), l0.get('t'))
                    else:
                        fake = {'op': 'bin', 'o': o[:-1], 't': ev.e.get('ct') or l0.get('t'), 'k': [l0, rhs]}
                        env[name] = wrap(self.ev(g, fake, env, depth), l0.get('t'))
                elif ev.k == 'ret':
                    if ev.e is None:
                        return 0
                    return wrap(self.ev(g, ev.e, env, depth), g.ret)
                elif ev.k == 'call':
                    h = self.P.functions.get(ev.callee)
                    if h is None:
                        # an external function: what it can reach through its arguments is no longer known
                        for a in ev.args:
                            a0 = strip_casts(a)
                            if a0.get('op') == 'un' and a0.get('o') == '&':
                                a0 = strip_casts(a0['k'][0])
                            pth_ = g.path(a0)
                            root_ = pth_.t[1] if pth_ is not None else None
                            if root_ is None:
                                continue
                            if len(pth_.t) == 2 and not (strip_casts(a).get('op') == 'un'):
                                # a plain value: only what it points to is reachable
                                for k_ in [k_ for k_ in env if isinstance(k_, str) and k_.startswith(root_ + '.')]:
                                    env.pop(k_)
                            else:
                                for k_ in [k_ for k_ in env if isinstance(k_, str) and (k_ == root_ or k_.startswith(root_ + '.'))]:
                                    if k_ == root_ and strip_casts(a).get('op') != 'un':
                                        continue
                                    env.pop(k_)
            if not b.succs:
                raise Top()
            if len(b.succs) == 1:
                b = b.succs[0][0]
                continue
            if b.term and b.term.get('kind') == 'SwitchStmt':
                v = self.ev(g, b.cond, env, depth)
                nxt = None
                dflt = None
                for s, label in b.succs:
                    if isinstance(label, tuple) and label[0] == 'case' and v in label[1]:
                        nxt = s
                    if label == ('default',) or (isinstance(label, tuple) and label[0] == 'case' and label[2]):
                        dflt = s
                b = nxt or dflt
                if b is None:
                    raise Top()
                continue
            c = self.ev(g, b.cond, env, depth)
            nxt = None
            for s, label in b.succs:
                if (label == 'T' and c) or (label == 'F' and not c):
                    nxt = s
            if nxt is None:
                raise Top()      # pruned edge
            b = nxt


def values_at(P, fn, target_ev, expr, env0, max_states=5000):
    """Set-of-constants abstract interpretation of fn from its entry to target_ev:
    locals that can be evaluated are tracked, conditions that cannot be
    evaluated fork both ways, paths that return before the target are dropped.
    Returns the set of values `expr` takes at the target (None in the set when
    some path leaves it unknown).  Loops are cut by the state budget."""
    fd = FD(P)
    out = set()
    seen = set()
    work = [(fn.entry, dict(env0))]
    n = 0
    visits = {}
    first_env = {}
    while work:
        b, env = work.pop()
        # widening: after a few visits of a block, variables that keep changing become unknown
        visits[b.id] = visits.get(b.id, 0) + 1
        if b.id not in first_env:
            first_env[b.id] = dict(env)
        elif visits[b.id] > 3:
            fe = first_env[b.id]
            for k_ in list(env):
                if fe.get(k_) != env[k_]:
                    env.pop(k_)
        key = (b.id, tuple(sorted(env.items())))
        if key in seen:
            continue
        seen.add(key)
        n += 1
        if n > max_states:
            out.add(None)
            break
        stop = False
        for ev in b.events:
            if ev is target_ev:
                try:
                    out.add(fd.ev(fn, expr, env))
                except (Top, ZeroDivisionError):
                    out.add(None)
                stop = True
                break
            if ev.k == 'decl':
                try:
                    if ev.e is None:
                        raise Top()
                    env[ev.name] = wrap(fd.ev(fn, ev.e, env), ev.t)
                except (Top, ZeroDivisionError):
                    env.pop(ev.name, None)
            elif ev.k == 'store':
                lhs, rhs, o = ev.store_parts()
                l0 = strip_casts(lhs)
                name = l0.get('name') if l0.get('op') == 'ref' else None
                if name is None:
                    from .ir import path_of
                    p = path_of(l0)
                    name = str(p) if p is not None else None
                if name is None:
                    continue
                try:
                    if rhs is None:
                        env[name] = wrap(env[name] + (1 if '++' in o else -1), l0.get('t'))
                    elif o == '=':
                        env[name] = wrap(fd.ev(fn, rhs, env), l0.get('t'))
                    else:
                        fake = {'op': 'bin', 'o': o[:-1], 't': ev.e.get('ct') or l0.get('t'), 'k': [l0, rhs]}
                        env[name] = wrap(fd.ev(fn, fake, env), l0.get('t'))
                except (Top, ZeroDivisionError, KeyError):
                    env.pop(name, None)
            elif ev.k == 'call':
                # locals passed by address are clobbered
                for a in ev.args:
                    a0 = strip_casts(a)
                    if a0.get('op') == 'un' and a0['o'] == '&':
                        inner = strip_casts(a0['k'][0])
                        if inner.get('op') == 'ref':
                            env.pop(inner['name'], None)
            elif ev.k == 'ret':
                stop = True
                break
        if stop:
            continue
        if len(b.succs) == 1:
            work.append((b.succs[0][0], env))
            continue
        if not b.succs:
            continue
        cv = None
        try:
            cv = fd.ev(fn, b.cond, env)
        except (Top, ZeroDivisionError):
            cv = None
        for s, label in b.succs:
            if label in ('T', 'F') and cv is not None:
                if (label == 'T') != bool(cv):
                    continue
            elif isinstance(label, tuple) and label[0] == 'case' and cv is not None:
                if cv not in label[1] and not label[2]:
                    continue
            work.append((s, dict(env)))
    return out


def _assumed(assume_calls, callee):
    """assume_calls is one value for every call, or a dict callee -> value with the default under None"""
    if isinstance(assume_calls, dict):
        return assume_calls.get(callee, assume_calls.get(None))
    return assume_calls


def _subst_calls(e, val):
    """copy of e with every call replaced by the literal val (results of calls on the success skeleton)"""
    if not isinstance(e, dict):
        return e
    if e.get('op') == 'call':
        v = _assumed(val, e.get('callee'))
        if v is None:
            return e
        return {'op': 'lit', 'c': v, 't': e.get('t', 'i32')}
    out = dict(e)
    if 'k' in e:
        out['k'] = [_subst_calls(k, val) for k in e['k']]
    return out


def _subst_ids(e, callret):
    """copy of e with every call whose value an inlined helper returned replaced by that value"""
    if not isinstance(e, dict):
        return e
    if e.get('op') == 'call' and isinstance(callret.get(e.get('id')), int):
        return {'op': 'lit', 'c': callret[e['id']], 't': e.get('t', 'i32')}
    out = dict(e)
    if 'k' in e:
        out['k'] = [_subst_ids(k, callret) for k in e['k']]
    return out


def trace_calls(P, fn, env0, max_steps=20000, _depth=0, assume_calls=None, partial=False, _retbox=None, sym_out=None, on_store=None, on_event=None, no_inline=()):
    """Finite-domain evaluation of the control skeleton of fn for ONE element of
    the finite input domain (env0 binds the enumerated parameters, e.g. a
    concrete length and address): values that cannot be evaluated become
    unknown, every branch condition must be evaluable (else Top), and the
    calls are returned in evaluation order as (callee, [arg...]) with each arg
    an int, ('deref', address), ('addr', local name) or None."""
    fd = FD(P)
    env = dict(env0)
    sym = {}     # pointer locals holding an address that is only known symbolically: name -> ('off', base, k) | ('addr', name)
    callret = {}  # call expression id -> value returned by an inlined helper
    out = []
    b = fn.entry
    steps = 0

    def arg_desc(a):
        a0 = strip_casts(a)
        if a0.get('op') == 'un' and a0['o'] == '*':
            try:
                return ('deref', fd.ev(fn, a0['k'][0], env))
            except (Top, ZeroDivisionError):
                return None
        if a0.get('op') == 'sub':
            try:
                base = fd.ev(fn, a0['k'][0], env)
                idx = fd.ev(fn, a0['k'][1], env)
                esz = {'u8': 1, 'i8': 1, 'u16': 2, 'u32': 4, 'u64': 8, 'i32': 4, 'i64': 8}.get(a0.get('t'), 1)
                return ('deref', base + idx * esz)
            except (Top, ZeroDivisionError):
                return None
        if a0.get('op') == 'un' and a0['o'] == '&':
            inner = strip_casts(a0['k'][0])
            if inner.get('op') == 'ref':
                return ('addr', inner['name'])
            if inner.get('op') == 'sub' and strip_casts(inner['k'][0]).get('op') == 'ref':
                try:
                    esz = {'u8': 1, 'i8': 1, 'u16': 2, 'u32': 4, 'u64': 8, 'i32': 4, 'i64': 8}.get(inner.get('t'), 1)
                    return ('off', strip_casts(inner['k'][0])['name'], fd.ev(fn, inner['k'][1], env) * esz)
                except (Top, ZeroDivisionError):
                    return None
        try:
            return fd.ev(fn, a0, env)
        except (Top, ZeroDivisionError):
            if a0.get('op') == 'ref':
                if a0['name'] in sym:
                    return sym[a0['name']]
                return ('var', a0['name'])
            # base + offset into a local buffer whose address is not modelled
            if a0.get('op') == 'bin' and a0['o'] == '+':
                for x, y in ((a0['k'][0], a0['k'][1]), (a0['k'][1], a0['k'][0])):
                    x0 = strip_casts(x)
                    if x0.get('op') == 'ref' and x0['name'] not in env:
                        try:
                            return ('off', x0['name'], fd.ev(fn, strip_casts(y), env))
                        except (Top, ZeroDivisionError):
                            return None
            return None

    while True:
        for ev in b.events:
            steps += 1
            if on_event is not None:
                on_event(ev, env, sym)
            if steps > max_steps:
                if partial:
                    return out          # the caller only needs a prefix of the call sequence
                raise Top()
            if ev.k == 'decl':
                try:
                    if ev.e is None:
                        raise Top()
                    try:
                        env[ev.name] = wrap(fd.ev(fn, ev.e, env), ev.t)
                    except Top:
                        # calls inside a larger expression take their assumed results
                        if assume_calls is None or strip_casts(ev.e).get('op') == 'call':
                            raise
                        env[ev.name] = wrap(fd.ev(fn, _subst_calls(ev.e, assume_calls), env), ev.t)
                except (Top, ZeroDivisionError):
                    env.pop(ev.name, None)
                    sym.pop(ev.name, None)
                    e0_ = strip_casts(ev.e) if ev.e is not None else None
                    if e0_ is not None and e0_.get('op') == 'call' and e0_.get('id') in callret:
                        rv_ = callret[e0_['id']]
                        if isinstance(rv_, int):
                            env[ev.name] = rv_
                        elif isinstance(rv_, tuple):
                            sym[ev.name] = rv_
                    elif e0_ is not None and ev.e is not None:
                        d_ = arg_desc(ev.e)
                        if isinstance(d_, tuple) and d_[0] in ('off', 'addr'):
                            sym[ev.name] = d_
                        # the success skeleton: results of calls are taken as `assume_calls` when asked to
                        elif assume_calls is not None and e0_.get('op') == 'call' and _assumed(assume_calls, e0_.get('callee')) is not None:
                            env[ev.name] = _assumed(assume_calls, e0_.get('callee'))
            elif ev.k == 'store':
                lhs, rhs, o = ev.store_parts()
                l0 = strip_casts(lhs)
                if on_store is not None:
                    on_store(ev, env, sym)
                if l0.get('op') != 'ref':
                    continue
                name = l0['name']
                try:
                    if rhs is None:
                        env[name] = wrap(env[name] + (1 if '++' in o else -1), l0.get('t'))
                    elif o == '=':
                        env[name] = wrap(fd.ev(fn, rhs, env), l0.get('t'))
                    else:
                        fake = {'op': 'bin', 'o': o[:-1], 't': ev.e.get('ct') or l0.get('t'), 'k': [l0, rhs]}
                        env[name] = wrap(fd.ev(fn, fake, env), l0.get('t'))
                except (Top, ZeroDivisionError, KeyError):
                    env.pop(name, None)
                    sym.pop(name, None)
                    if rhs is not None and o == '=':
                        d_ = arg_desc(rhs)
                        if isinstance(d_, tuple) and d_[0] in ('off', 'addr'):
                            sym[name] = d_
                        elif rhs is not None and strip_casts(rhs).get('op') == 'call' and strip_casts(rhs).get('id') in callret:
                            rv_ = callret[strip_casts(rhs)['id']]
                            if isinstance(rv_, int):
                                env[name] = rv_
                            elif isinstance(rv_, tuple):
                                sym[name] = rv_
                        elif rhs is not None and strip_casts(rhs).get('op') == 'call' and assume_calls is not None and \
                                _assumed(assume_calls, strip_casts(rhs).get('callee')) is not None:
                            env[name] = _assumed(assume_calls, strip_casts(rhs).get('callee'))
            elif ev.k == 'call':
                g = P.functions.get(ev.callee) if P is not None else None
                if g is not None and g.file == fn.file and g is not fn and _depth < 3 and g.name not in no_inline:
                    # a helper of the same unit: evaluate its skeleton in place (its result stays unknown)
                    sub_env = {}
                    for i_, a in enumerate(ev.args):
                        if i_ < len(g.params):
                            try:
                                sub_env[g.params[i_]['name']] = fd.ev(fn, strip_casts(a), env)
                            except (Top, ZeroDivisionError, KeyError):
                                pass
                    # fields of an object handed on by pointer are visible to a helper that only reads them
                    for i_, a in enumerate(ev.args):
                        a0_ = strip_casts(a)
                        if i_ < len(g.params) and a0_.get('op') == 'ref' and isinstance(a0_.get('name'), str):
                            pn_ = g.params[i_]['name']
                            writes_ = False
                            for sv_ in g.stores():
                                pth_ = g.path(strip_casts(sv_.store_parts()[0]))
                                if pth_ is not None and len(pth_.t) > 2 and pth_.t[1] == pn_:
                                    writes_ = True
                            if not writes_:
                                pre_ = a0_['name'] + '.'
                                for k_, v_ in list(env.items()):
                                    if isinstance(k_, str) and k_.startswith(pre_):
                                        sub_env[pn_ + '.' + k_[len(pre_):]] = v_
                    box = []
                    out.extend(trace_calls(P, g, sub_env, max_steps, _depth + 1, assume_calls, False, box))
                    if box:
                        callret[ev.e.get('id')] = box[0]
                    continue
                out.append((ev.callee, [arg_desc(a) for a in ev.args], ev))
                for a in ev.args:
                    a0 = strip_casts(a)
                    if a0.get('op') == 'un' and a0['o'] == '&':
                        inner = strip_casts(a0['k'][0])
                        if inner.get('op') == 'ref':
                            env.pop(inner['name'], None)
            elif ev.k == 'ret':
                if _retbox is not None and ev.e is not None:
                    _retbox.append(arg_desc(ev.e))
                if sym_out is not None:
                    sym_out.update({k_: v_ for k_, v_ in env.items() if isinstance(k_, str)})
                    sym_out.update(sym)
                return out
        if not b.succs:
            if sym_out is not None:
                sym_out.update({k_: v_ for k_, v_ in env.items() if isinstance(k_, str)})
                sym_out.update(sym)
            return out
        if len(b.succs) == 1:
            b = b.succs[0][0]
            continue
        try:
            try:
                for k_, v_ in sym.items():
                    if v_[0] == 'addr' and k_ not in env:
                        env[k_] = 0x70000000      # the address of an object: not NULL
                try:
                    c = fd.ev(fn, b.cond, env)      # Top propagates: the skeleton is not decidable for this input
                except Top:
                    if not callret:
                        raise
                    c = fd.ev(fn, _subst_ids(b.cond, callret), env)
            except Top:
                if assume_calls is None:
                    raise
                c = fd.ev(fn, _subst_calls(_subst_ids(b.cond, callret), assume_calls), env)
        except Top:
            import os
            if os.environ.get('JLS_TRACE_DEBUG'):
                print('trace_calls: not decidable: %s in %s with %s' % (show(b.cond), fn.name, sorted(env)))
            raise
        nxt = None
        for s, label in b.succs:
            if (label == 'T' and c) or (label == 'F' and not c):
                nxt = s
        if nxt is None and any(isinstance(l_, tuple) for _, l_ in b.succs):
            # switch: the arm whose case list holds the value, else the default arm
            for s, label in b.succs:
                if isinstance(label, tuple) and label[0] == 'case' and c in label[1]:
                    nxt = s
            if nxt is None:
                for s, label in b.succs:
                    if isinstance(label, tuple) and (label[0] == 'default' or (label[0] == 'case' and len(label) > 2 and label[2])):
                        nxt = s
        if nxt is None:
            raise Top()
        b = nxt
