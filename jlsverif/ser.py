"""SER engine: serializer / parser sequences (DESIGN §2.3)."""
from .ir import strip_casts, const_of, walk, show, kids
from .graph import ev_dominates, control_deps_transitive

WR = {'jls_buf_wr_u8': ('u', 1), 'jls_buf_wr_u16': ('u', 2), 'jls_buf_wr_u32': ('u', 4), 'jls_buf_wr_i64': ('i', 8),
      'jls_buf_wr_f32': ('f', 4), 'jls_buf_wr_str': ('str', 0), 'jls_buf_wr_bin': ('bin', 0), 'jls_buf_wr_zero': ('pad', None),
      'buf_wr_str': ('str', 0)}
RD = {'jls_buf_rd_u8': ('u', 1), 'jls_buf_rd_u16': ('u', 2), 'jls_buf_rd_u32': ('u', 4), 'jls_buf_rd_str': ('str', 0),
      'jls_buf_rd_skip': ('pad', None)}


def field_of(fn, e):
    e = strip_casts(e)
    if e is None:
        return None
    if e.get('op') == 'un' and e['o'] == '&':
        e = strip_casts(e['k'][0])
    if e.get('op') == 'member':
        return e['field']
    if e.get('op') == 'ref':
        return e['name']
    return None


def token(fn, ev):
    """('u',4,'data_type') / ('pad',n,None) / ('str',0,'name') ..."""
    tab = WR if ev.callee in WR else RD
    kind, width = tab[ev.callee]
    a = ev.args
    if kind == 'pad':
        return ('pad', const_of(a[1]), None)
    val = a[1] if len(a) > 1 else None
    if ev.callee in WR and kind in ('u', 'i') and val is not None and const_of(strip_casts(val)) == 0 and strip_casts(val).get('op') == 'lit':
        return ('pad', width, None)        # reserved byte(s) written as literal 0
    return (kind, width, field_of(fn, val))


def ordered(fn, evs):
    """Sort events so that a precedes b when a dominates b (straight-line serializers)."""
    evs = list(evs)
    out = []
    while evs:
        for e in evs:
            if all(e is o or not ev_dominates(o, e) for o in evs):
                out.append(e)
                evs.remove(e)
                break
        else:
            out.extend(evs)
            break
    return out


def sequence(fn, evs):
    toks = []
    for ev in ordered(fn, evs):
        t = token(fn, ev)
        if t[0] == 'pad' and toks and toks[-1][0] == 'pad' and t[1] is not None and toks[-1][1] is not None:
            toks[-1] = ('pad', toks[-1][1] + t[1], None)
        else:
            toks.append(t)
    return toks


def case_region(fn, switch_field, case_value):
    """Events of the blocks dominated by the `case case_value` target of the switch whose condition ends in .<switch_field>."""
    from .graph import dominators
    dom = dominators(fn)
    out = []
    for sb in fn.blocks.values():
        if not (sb.term and sb.term.get('kind') == 'SwitchStmt' and sb.cond is not None):
            continue
        p = fn.path(strip_casts(sb.cond))
        if p is None or p.last_field() != switch_field:
            continue
        for s, label in sb.succs:
            if isinstance(label, tuple) and label[0] == 'case' and case_value in label[1]:
                for b in fn.blocks.values():
                    if b.id in dom and s.id in dom[b.id]:
                        out.extend(b.events)
    return out


def layout_of(seq):
    """Byte offsets of the fixed-size prefix: [(offset, kind, width, name)]."""
    off = 0
    out = []
    for kind, width, name in seq:
        if kind in ('str', 'bin') or width is None:
            out.append((off, kind, width, name))
            break
        out.append((off, kind, width, name))
        off += width
    return out
