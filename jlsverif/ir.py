"""In-memory program model over the jlsx export: functions, blocks, events,
expression helpers, access paths, call graph."""
from collections import defaultdict

from .export import AnalysisBroken


# --------------------------------------------------------------------------
# expression helpers (expressions are the plain dicts written by jlsx)

def kids(e):
    return e.get('k', []) if e else []


def walk(e):
    """Pre-order walk over an expression tree (includes callee expr and sizeof arg)."""
    if not e:
        return
    stack = [e]
    while stack:
        n = stack.pop()
        if not n:
            continue
        yield n
        if 'fn' in n:
            stack.append(n['fn'])
        ks = n.get('k')
        if ks:
            stack.extend(reversed(ks))


def strip_casts(e):
    while e and e.get('op') == 'cast':
        e = e['k'][0]
    return e


def const_of(e):
    """Integer constant value of an expression if clang folded it, else None."""
    if e is None:
        return None
    if 'c' in e:
        if 'cu' in e:
            return int(e['cu'])
        return e['c']
    return None


def is_call(e, name=None):
    e = strip_casts(e)
    if not e or e.get('op') != 'call':
        return False
    return name is None or e.get('callee') == name or (isinstance(name, (set, frozenset, tuple, list)) and e.get('callee') in name)


def calls_in(e):
    return [n for n in walk(e) if n.get('op') == 'call']


def refs_in(e):
    return [n for n in walk(e) if n.get('op') == 'ref']


def ref_names(e, kinds=('local', 'param', 'global')):
    return set(n['name'] for n in walk(e) if n.get('op') == 'ref' and n.get('rk') in kinds)


def fields_in(e):
    return [n for n in walk(e) if n.get('op') == 'member']


def show(e, depth=0):
    """Compact C-like rendering for reports."""
    if e is None:
        return ''
    op = e.get('op')
    k = kids(e)
    if depth > 12:
        return '...'
    if op == 'lit':
        return e.get('m') or str(const_of(e))
    if op == 'flit':
        return e.get('m') or str(e.get('f'))
    if op == 'str':
        return '"%s"' % e.get('s', '')[:30].replace('\n', '\\n')
    if op == 'ref':
        return e['name']
    if op == 'member':
        return '%s%s%s' % (show(k[0], depth + 1), '->' if e.get('arrow') else '.', e['field'])
    if op == 'sub':
        return '%s[%s]' % (show(k[0], depth + 1), show(k[1], depth + 1))
    if op == 'call':
        fn = e.get('callee') or ('(*%s)' % show(e.get('fn'), depth + 1))
        return '%s(%s)' % (fn, ', '.join(show(a, depth + 1) for a in k))
    if op == 'un':
        o = e['o']
        if o.startswith('post'):
            return '%s%s' % (show(k[0], depth + 1), o[4:])
        if o.startswith('pre'):
            return '%s%s' % (o[3:], show(k[0], depth + 1))
        return '%s%s' % (o, show(k[0], depth + 1))
    if op == 'bin':
        return '(%s %s %s)' % (show(k[0], depth + 1), e['o'], show(k[1], depth + 1))
    if op == 'cond':
        return '(%s ? %s : %s)' % tuple(show(x, depth + 1) for x in k)
    if op == 'cast':
        if e.get('impl'):
            return show(k[0], depth + 1)
        return '(%s)%s' % (e['t'], show(k[0], depth + 1))
    if op == 'sizeof':
        return 'sizeof(%s)' % (show(e.get('arg'), depth + 1) if e.get('arg') else e.get('of'))
    if op == 'init':
        return '{%s}' % ', '.join(show(x, depth + 1) for x in k[:8])
    if op == 'compound':
        return show(k[0], depth + 1) if k else '{}'
    return '<%s>' % (e.get('cls') or op)


# --------------------------------------------------------------------------
# access paths

class Path:
    """(root_kind, root_name, step, step, ...) with steps '.f', '[]', '*'.
    Address-of and the arrow/dot distinction are normalised away by path_of().
    Deliberately not a tuple subclass (so that '%s' % path formats the path)."""
    __slots__ = ('t',)

    def __init__(self, items):
        self.t = tuple(items)

    def __iter__(self):
        return iter(self.t)

    def __len__(self):
        return len(self.t)

    def __getitem__(self, i):
        return self.t[i]

    def __eq__(self, other):
        return tuple(self) == tuple(other) if other is not None else False

    def __hash__(self):
        return hash(self.t)

    def __str__(self):
        return self.t[1] + ''.join(self.t[2:])

    __repr__ = __str__

    @property
    def root(self):
        return self.t[1]

    @property
    def root_kind(self):
        return self.t[0]

    def fields(self):
        return [s.lstrip('.->') for s in self.t[2:] if s[0] in '.-']

    def last_field(self):
        f = self.t[-1] if len(self.t) > 2 else None
        if f is not None and f[0] == '.':
            return f[1:]
        return None


def path_of(e):
    """Access path of an lvalue-ish expression: ref, member, subscript, deref,
    address-of (dropped), casts (dropped).  Returns Path or None."""
    steps = []
    while e is not None:
        op = e.get('op')
        if op == 'cast':
            e = e['k'][0]
        elif op == 'member':
            steps.append(('->' if e.get('arrow') else '.') + e['field'])
            e = e['k'][0]
        elif op == 'sub':
            steps.append('[]')
            e = e['k'][0]
        elif op == 'un' and e['o'] == '*':
            steps.append('*')
            e = e['k'][0]
        elif op == 'un' and e['o'] == '&':
            steps.append('&')
            e = e['k'][0]
        elif op == 'ref':
            steps.reverse()
            # normalise: '&' followed by '.f'  ==  '->f' from a pointer; we keep
            # object identity only: drop '&', turn '->' into '.'
            out = []
            for s in steps:
                if s == '&':
                    continue
                if s.startswith('->'):
                    s = '.' + s[2:]
                out.append(s)
            return Path((e.get('rk'), e['name']) + tuple(out))
        elif op == 'bin' and e['o'] in ('+', '-') and e.get('t', '').startswith('p'):
            # pointer arithmetic: p + n  -> element of p
            steps.append('[]')
            e = e['k'][0]
        else:
            return None
    return None


def maximal_lvalues(e):
    """Outermost lvalue expressions (ref/member/subscript/deref chains) inside
    e; index expressions of subscripts are searched as well."""
    out = []
    stack = [e]
    while stack:
        n = stack.pop()
        if not n:
            continue
        op = n.get('op')
        if op in ('ref', 'member', 'sub') or (op == 'un' and n['o'] == '*'):
            out.append(n)
            # descend the base chain only for index expressions
            m = n
            while m is not None and m.get('op') in ('member', 'sub', 'un', 'cast'):
                if m.get('op') == 'sub':
                    stack.append(m['k'][1])
                if m.get('op') == 'un' and m['o'] not in ('*', '&'):
                    stack.append(m)
                    break
                m = m['k'][0] if m.get('k') else None
            if m is not None and m.get('op') not in ('ref', 'member', 'sub', 'un', 'cast'):
                stack.append(m)
            continue
        if 'fn' in n:
            stack.append(n['fn'])
        for k in n.get('k', []):
            stack.append(k)
    return out


def obj_prefix(p, q):
    """True when path p is a prefix of q (same object or q is inside p)."""
    if p is None or q is None:
        return False
    if p[1] != q[1]:
        return False
    a, b = p[2:], q[2:]
    return len(a) <= len(b) and tuple(b[:len(a)]) == tuple(a)


def same_object(p, q):
    return obj_prefix(p, q) or obj_prefix(q, p)


# --------------------------------------------------------------------------

class Event:
    __slots__ = ('fn', 'block', 'idx', 'k', 'e', 'ln', 'name', 't', 'raw', 'node')

    def __init__(self, fn, block, idx, raw):
        self.fn = fn
        self.block = block
        self.idx = idx
        self.raw = raw
        self.k = raw['k']
        self.node = raw.get('node')
        self.e = raw.get('e')
        self.ln = raw.get('ln', 0)
        self.name = raw.get('name')
        self.t = raw.get('t')

    @property
    def pos(self):
        return (self.block.id, self.idx)

    def where(self):
        return '%s:%d' % (self.fn.file, self.ln)

    # calls
    @property
    def callee(self):
        return self.e.get('callee') if self.k == 'call' else None

    @property
    def args(self):
        return kids(self.e) if self.k == 'call' else []

    # stores: (lhs expr, rhs expr or None, operator)
    def store_parts(self):
        if self.k == 'decl':
            return ({'op': 'ref', 'rk': 'local', 'name': self.name, 't': self.t}, self.e, '=')
        if self.k != 'store':
            return None
        e = self.e
        if e['op'] == 'bin':
            return (e['k'][0], e['k'][1], e['o'])
        return (e['k'][0], None, e['o'])

    def __repr__(self):
        return '<%s %s %s>' % (self.k, self.where(), show(self.e) if self.e else self.name)


class Block:
    def __init__(self, fn, raw):
        self.fn = fn
        self.id = raw['id']
        self.raw = raw
        self.events = [Event(fn, self, i, r) for i, r in enumerate(raw.get('ev', []))]
        self.cond = raw.get('cond')
        self.term = raw.get('term')
        self.label = raw.get('label')
        self.succ_ids = raw.get('succ', [])
        self.succs = []      # [(Block, label)]
        self.preds = []      # [(Block, label)]

    def __repr__(self):
        return 'B%d' % self.id

    @property
    def line(self):
        if self.events:
            return self.events[0].ln
        if self.term:
            return self.term.get('ln', 0)
        if self.cond:
            return self.cond.get('ln', 0)
        return 0


class Function:
    def __init__(self, unit, raw):
        self.unit = unit
        self.raw = raw
        self.name = raw['name']
        self.file = raw['file']
        self.line = raw['line']
        self.end_line = raw.get('end_line', 0)
        self.static = raw.get('static', False)
        self.api = raw.get('api', False) and not raw.get('static', False)
        self.params = raw.get('params', [])
        self.ret = raw.get('ret')
        self.blocks = {}
        for b in raw.get('blocks', []):
            self.blocks[b['id']] = Block(self, b)
        self.entry = self.blocks[raw['entry']]
        self.exit = self.blocks[raw['exit']]
        for b in self.blocks.values():
            is_switch = b.term and b.term.get('kind') == 'SwitchStmt'
            n = len(b.succ_ids)
            for i, sid in enumerate(b.succ_ids):
                if sid is None:
                    continue
                s = self.blocks[sid]
                if is_switch:
                    lab = s.label or {}
                    if 'case' in lab and lab['case']:
                        label = ('case', tuple(lab['case']), bool(lab.get('default')))
                    elif lab.get('default'):
                        label = ('default',)
                    else:
                        label = ('default',)   # implicit default: falls past the switch
                elif n >= 2 and b.cond is not None:
                    label = 'T' if i == 0 else 'F'
                else:
                    label = None
                b.succs.append((s, label))
                s.preds.append((b, label))
        # drop blocks that are unreachable from the entry (code under a disabled
        # log level, pruned as trivially false by the CFG builder): it does not
        # exist in the real build either
        seen = {self.entry.id}
        work = [self.entry]
        while work:
            b = work.pop()
            for s2, _ in b.succs:
                if s2.id not in seen:
                    seen.add(s2.id)
                    work.append(s2)
        seen.add(self.exit.id)
        for bid in list(self.blocks):
            if bid not in seen:
                del self.blocks[bid]
        for b in self.blocks.values():
            b.preds = [(p, l) for (p, l) in b.preds if p.id in seen]
        self._dom = None
        self._pdom = None
        self._reach = None
        self._aliases = None
        self._sub_events = None

    def __repr__(self):
        return '<fn %s %s:%d>' % (self.name, self.file, self.line)

    def where(self):
        return '%s:%d' % (self.file, self.line)

    def events(self, kind=None):
        for b in self.blocks.values():
            for ev in b.events:
                if kind is None or ev.k == kind:
                    yield ev

    def calls(self, name=None):
        for ev in self.events('call'):
            if name is None or ev.callee == name or (not isinstance(name, str) and ev.callee in name):
                yield ev

    def stores(self):
        for b in self.blocks.values():
            for ev in b.events:
                if ev.k in ('store', 'decl'):
                    yield ev

    def returns(self):
        return list(self.events('ret'))

    def sub_event(self, node_id):
        """The position marker event of a subscript node (where it is evaluated)."""
        if getattr(self, '_sub_events', None) is None:
            self._sub_events = {}
            for ev in self.events('sub'):
                self._sub_events[ev.node] = ev
        return self._sub_events.get(node_id)

    def event_by_expr_id(self, eid):
        for ev in self.events():
            if ev.e is not None and ev.e.get('id') == eid:
                return ev
        return None

    # ---- aliases: a local initialised exactly once from an address / pointer
    # expression and never stored again stands for that expression.
    def aliases(self):
        if self._aliases is not None:
            return self._aliases
        nstores = defaultdict(int)
        init = {}
        for ev in self.stores():
            lhs, rhs, o = ev.store_parts()
            lhs = strip_casts(lhs)
            if lhs.get('op') == 'ref' and lhs.get('rk') == 'local':
                nstores[lhs['name']] += 1
                if ev.k == 'decl' and rhs is not None:
                    init[lhs['name']] = rhs
                elif rhs is not None and o == '=':
                    init.setdefault(lhs['name'], rhs)
        # a local whose address is taken may be modified elsewhere
        addr = set()
        for ev in self.events():
            for n in walk(ev.e):
                if n.get('op') == 'un' and n['o'] == '&':
                    p = path_of(n['k'][0])
                    if p and len(p) == 2:
                        addr.add(p.root)
        al = {}
        for name, rhs in init.items():
            if nstores[name] != 1 or name in addr:
                continue
            if not (rhs.get('t', '').startswith('p')):
                continue
            p = path_of(rhs)
            if p is not None and p.root != name:
                al[name] = p
        # resolve chains
        changed = True
        n = 0
        while changed and n < 8:
            changed = False
            n += 1
            for name, p in list(al.items()):
                if p.root_kind == 'local' and p.root in al and p.root != name:
                    base = al[p.root]
                    al[name] = Path(tuple(base) + tuple(p[2:]))
                    changed = True
        self._aliases = al
        return al

    def path(self, e):
        """Access path with single-assignment local aliases substituted."""
        p = path_of(e)
        if p is None:
            return None
        al = self.aliases()
        if p.root_kind == 'local' and p.root in al:
            base = al[p.root]
            p = Path(tuple(base) + tuple(p[2:]))
        return p


class Program:
    """All units of one configuration."""

    def __init__(self, units, config='default'):
        self.config = config
        self.units = units
        self.functions = {}
        self.records = {}
        self.enums = {}
        self.enum_consts = {}
        self.globals = {}
        self.files = set()
        seen = set()
        for u in units:
            self.files.add(u['main_file'])
            for f in u['functions']:
                key = (f['file'], f['line'], f['name'])
                if key in seen:
                    continue
                seen.add(key)
                if 'blocks' not in f:
                    raise AnalysisBroken('no CFG for %s' % f['name'])
                fn = Function(u, f)
                if fn.name in self.functions and not fn.static:
                    raise AnalysisBroken('duplicate external function %s' % fn.name)
                if fn.name in self.functions:
                    # static functions with the same name in different units
                    self.functions[fn.name + '@' + fn.file] = fn
                else:
                    self.functions[fn.name] = fn
            for r in u['records']:
                if r['name']:
                    self.records.setdefault(r['name'], r)
            for e in u['enums']:
                self.enums.setdefault(e['name'] or ('anon@%s:%d' % (e['file'], e['line'])), e)
                for it in e['items']:
                    self.enum_consts[it['name']] = it['v']
            for g in u['globals']:
                self.globals.setdefault(g['name'], g)
        self._callers = None

    def fn(self, name, file=None):
        """Anchor lookup: a missing anchor is an analysis failure (exit 2)."""
        f = self.functions.get(name)
        if f is not None and file is not None and f.file != file:
            f = self.functions.get(name + '@' + file)
        if f is None:
            raise AnalysisBroken('anchor function `%s` not found in the analysed units' % name)
        return f

    def has_fn(self, name):
        return name in self.functions

    def all_functions(self):
        return list(self.functions.values())

    def fns_in(self, file):
        return [f for f in self.functions.values() if f.file == file]

    def record(self, name):
        r = self.records.get(name)
        if r is None:
            raise AnalysisBroken('anchor record `%s` not found' % name)
        return r

    def field_offset(self, rec, field):
        for f in self.record(rec)['fields']:
            if f['name'] == field:
                return f['off_bits'] // 8
        raise AnalysisBroken('field %s.%s not found' % (rec, field))

    def enum(self, name):
        e = self.enums.get(name)
        if e is None:
            raise AnalysisBroken('anchor enum `%s` not found' % name)
        return e

    def glob(self, name):
        g = self.globals.get(name)
        if g is None:
            raise AnalysisBroken('anchor global `%s` not found' % name)
        return g

    # ---- call graph ------------------------------------------------------
    def callers(self):
        """callee name -> [(Function, Event)] for direct calls; function names
        passed as arguments (callbacks, thread entry) are recorded under
        '&name'."""
        if self._callers is not None:
            return self._callers
        c = defaultdict(list)
        for f in self.functions.values():
            for ev in f.events():
                if ev.k == 'call' and ev.callee:
                    c[ev.callee].append((f, ev))
                for n in walk(ev.e):
                    if n.get('op') == 'ref' and n.get('rk') == 'func':
                        # skip the callee position of direct calls (not exported as ref)
                        c['&' + n['name']].append((f, ev))
        self._callers = c
        return c

    def callees_of(self, f):
        out = set()
        for ev in f.events():
            if ev.k == 'call' and ev.callee:
                out.add(ev.callee)
            for n in walk(ev.e):
                if n.get('op') == 'ref' and n.get('rk') == 'func':
                    out.add(n['name'])
        return out

    def reachable_from(self, roots, stop=()):
        """Function names reachable from root names through direct calls and
        function references (callbacks), not descending into `stop`."""
        seen = set()
        work = list(roots)
        while work:
            n = work.pop()
            if n in seen or n in stop:
                continue
            seen.add(n)
            f = self.functions.get(n)
            if f is None:
                continue
            for c in self.callees_of(f):
                if c not in seen:
                    work.append(c)
        return seen

    def call_paths(self, root, target, limit=3):
        """Up to `limit` call chains root -> ... -> target (names)."""
        res = []
        stack = [(root, [root])]
        seen_edges = set()
        while stack and len(res) < limit:
            n, path = stack.pop()
            if n == target:
                res.append(path)
                continue
            f = self.functions.get(n)
            if f is None or len(path) > 12:
                continue
            for c in sorted(self.callees_of(f)):
                if c in path or (n, c) in seen_edges:
                    continue
                seen_edges.add((n, c))
                stack.append((c, path + [c]))
        return res
