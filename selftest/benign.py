#!/usr/bin/env python3
"""Benign-edit battery (DESIGN §4.22): behaviour-preserving edits applied to a
scratch copy; every check must stay silent (exit 0).  Used while developing
rules; results are quoted in DESIGN.md."""
import json, os, shutil, subprocess, sys, tempfile
from concurrent.futures import ThreadPoolExecutor
VERIF = os.path.dirname(os.path.dirname(os.path.abspath(__file__)))
REPO = os.environ.get('JLS_REPO', '/repo')
PROPS = [c['property_id'] for c in json.load(open(os.path.join(VERIF, 'MANIFEST.json')))['checks']]


def run_one(m):
    tmp = tempfile.mkdtemp(prefix='jlsben-')
    try:
        for d in ('src', 'include', 'include_prv'):
            shutil.copytree(os.path.join(REPO, d), os.path.join(tmp, d))
        for ed in m['edits']:
            p = os.path.join(tmp, ed['file'])
            s = open(p).read()
            if ed['old'] not in s:
                return m['id'], 'skipped', []
            open(p, 'w').write(s.replace(ed['old'], ed['new'], 1))
        env = dict(os.environ, JLS_NO_EVIDENCE='1')
        bad = []
        for prop in PROPS:
            p = subprocess.run([os.path.join(VERIF, 'check'), prop, '--repo', tmp, '--json'], stdout=subprocess.PIPE, stderr=subprocess.STDOUT, text=True, env=env)
            if p.returncode != 0:
                bad.append((prop, p.returncode, [l for l in p.stdout.splitlines() if l.startswith('FAILED') or 'BROKEN' in l][:3]))
        return m['id'], 'ok' if not bad else 'ALARM', bad
    finally:
        shutil.rmtree(tmp, ignore_errors=True)


if __name__ == '__main__':
    ms = json.load(open(os.path.join(VERIF, 'selftest', 'benign.json')))
    with ThreadPoolExecutor(max_workers=4) as ex:
        res = list(ex.map(run_one, ms))
    n = 0
    for i, st, bad in res:
        print('%-7s %s %s' % (st, i, bad if bad else ''))
        n += st == 'ALARM'
    print('%d benign edits, %d raised an alarm' % (len(res), n))
    sys.exit(1 if n else 0)
