#!/usr/bin/env python3
"""Mutant battery (DESIGN §2.4, Appendix C): one seeded break per rule instance
class, applied to a scratch copy of /repo (never to /repo itself), which must
still parse, and the named rule must fire naming that instance.

  selftest/mutants.py [PROP ...]         run the battery for the properties (all by default)
  selftest/mutants.py --list

Used by the thorough tier (results recorded in evidence.selftest, never change
a check's exit status) and by hand while developing rules.
"""
import json
import os
import shutil
import subprocess
import sys
import tempfile
from concurrent.futures import ThreadPoolExecutor

VERIF = os.path.dirname(os.path.dirname(os.path.abspath(__file__)))
sys.path.insert(0, VERIF)
REPO = os.environ.get('JLS_REPO', '/repo')


def load():
    with open(os.path.join(VERIF, 'selftest', 'mutants.json')) as f:
        return json.load(f)


def make_copy(dst):
    for d in ('src', 'include', 'include_prv'):
        shutil.copytree(os.path.join(REPO, d), os.path.join(dst, d))


def run_one(m):
    """Returns dict(id, status in applied|skipped, fired, rules_fired, rc)."""
    tmp = tempfile.mkdtemp(prefix='jlsmut-')
    try:
        make_copy(tmp)
        for ed in m['edits']:
            p = os.path.join(tmp, ed['file'])
            s = open(p).read()
            if s.count(ed['old']) < 1:
                return {'id': m['id'], 'status': 'skipped', 'why': 'pattern not present in %s' % ed['file']}
            s = s.replace(ed['old'], ed['new'], 1)
            open(p, 'w').write(s)
        fired = {}
        rcs = {}
        for prop in m['expect']:
            env = dict(os.environ)
            env['JLS_NO_EVIDENCE'] = '1'
            p = subprocess.run([os.path.join(VERIF, 'check'), prop, '--repo', tmp, '--json'],
                               stdout=subprocess.PIPE, stderr=subprocess.STDOUT, text=True, env=env)
            rcs[prop] = p.returncode
            rules = []
            for line in p.stdout.splitlines():
                if line.startswith('FAILED '):
                    rules.append(json.loads(line[7:]))
            fired[prop] = rules
        res = {'id': m['id'], 'status': 'applied', 'fired': {}, 'rc': rcs, 'ok': True}
        for prop, want in m['expect'].items():
            got = fired[prop]
            hit = [g for g in got if g['rule'] in want['rules'] and (not want.get('function') or g['function'] == want['function'])]
            res['fired'][prop] = sorted(set('%s@%s' % (g['rule'], g['function']) for g in got))
            if not hit or rcs[prop] != 1:
                res['ok'] = False
        return res
    finally:
        shutil.rmtree(tmp, ignore_errors=True)


def run(props=None, jobs=8):
    ms = load()
    if props:
        ms = [m for m in ms if set(m['expect']) & set(props)]
    with ThreadPoolExecutor(max_workers=jobs) as ex:
        return list(ex.map(run_one, ms))


def main():
    args = sys.argv[1:]
    if '--list' in args:
        for m in load():
            print(m['id'], sorted(m['expect']), '-', m['what'])
        return 0
    res = run([a.upper() for a in args] or None)
    bad = 0
    for r in res:
        if r['status'] == 'skipped':
            print('SKIP  %-40s %s' % (r['id'], r['why']))
        elif r['ok']:
            print('FIRED %-40s %s' % (r['id'], r['fired']))
        else:
            bad += 1
            print('MISS  %-40s rc=%s fired=%s' % (r['id'], r['rc'], r['fired']))
    print('%d mutants, %d missed' % (len(res), bad))
    return 1 if bad else 0


if __name__ == '__main__':
    sys.exit(main())
