#!/usr/bin/env python3
"""Parallel variant of seeded.py for development: every seed is applied to its own scratch copy of /repo's HEAD
(under a temporary directory outside /repo and /verif, removed afterwards) and the checks run against that copy
with `./check <ID> --repo DIR`.  Same output and results file as seeded.py; /repo itself is never touched.

  selftest/seeded_par.py [-j N] [<id> ...]
"""
import json, os, shutil, subprocess, sys, tempfile
from concurrent.futures import ThreadPoolExecutor
VERIF = os.path.dirname(os.path.dirname(os.path.abspath(__file__)))
REPO = '/repo'


def one(args):
    s, props, base = args
    d = os.path.join(VERIF, 'seeded', s)
    meta = json.load(open(os.path.join(d, 'meta.json')))
    work = os.path.join(base, s)
    os.makedirs(work)
    try:
        tar = subprocess.Popen(['git', '-C', REPO, 'archive', 'HEAD'], stdout=subprocess.PIPE)
        subprocess.run(['tar', '-x', '-C', work], stdin=tar.stdout, check=True)
        tar.wait()
        r = subprocess.run(['patch', '-p1', '-s', '-d', work, '-i', os.path.join(d, 'patch.diff')], stdout=subprocess.PIPE, stderr=subprocess.STDOUT, text=True)
        if r.returncode != 0:
            return s, 'noapply', '%-34s patch does not apply: %s' % (s, r.stdout.strip()[:100])
        fired = {}
        env = dict(os.environ, JLS_NO_EVIDENCE='1')
        for p in props:
            out = subprocess.run([os.path.join(VERIF, 'check'), p, '--json', '--repo', work], stdout=subprocess.PIPE, stderr=subprocess.STDOUT, text=True, env=env)
            rules = sorted(set('%s@%s' % (json.loads(l[7:])['rule'], json.loads(l[7:])['function']) for l in out.stdout.splitlines() if l.startswith('FAILED ')))
            if out.returncode == 1:
                fired[p] = rules
            elif out.returncode == 2:
                fired[p] = ['exit 2: ' + ' '.join(l for l in out.stdout.splitlines() if 'BROKEN' in l)[:160]]
        target = meta['property']
        hit = target in fired and not fired[target][0].startswith('exit 2')
        return s, {'target': target, 'caught': hit, 'fired': fired}, '%-34s %-4s %s  %s' % (s, target, 'CAUGHT' if hit else 'MISSED', json.dumps(fired))
    finally:
        shutil.rmtree(work, ignore_errors=True)


def main():
    argv = sys.argv[1:]
    jobs = 12
    if argv[:1] == ['-j']:
        jobs = int(argv[1]); argv = argv[2:]
    props = [c['property_id'] for c in json.load(open(os.path.join(VERIF, 'MANIFEST.json')))['checks']]
    seeds = sorted(d for d in os.listdir(os.path.join(VERIF, 'seeded')) if os.path.isfile(os.path.join(VERIF, 'seeded', d, 'meta.json')))
    if argv:
        seeds = [s for s in seeds if s in argv]
    base = tempfile.mkdtemp(prefix='jlsseeded-')
    summary = {}
    try:
        with ThreadPoolExecutor(max_workers=jobs) as ex:
            for s, res, line in ex.map(one, [(s, props, base) for s in seeds]):
                print(line)
                summary[s] = res
    finally:
        shutil.rmtree(base, ignore_errors=True)
    if not argv:
        json.dump(summary, open(os.path.join(VERIF, 'seeded', 'results.json'), 'w'), indent=1, sort_keys=True)
    ncaught = sum(1 for v in summary.values() if isinstance(v, dict) and v['caught'])
    print('%d seeds, %d caught by the check of their own property' % (len(summary), ncaught))
    return 0


if __name__ == '__main__':
    sys.exit(main())
