#!/usr/bin/env python3
"""Run the registered checks against the seeded changes kept under /verif/seeded/.

  selftest/seeded.py            all seeds
  selftest/seeded.py <id> ...   selected seeds

For each seed: `git -C /repo apply patch.diff`, run every check's quick command
(evidence writing disabled), `git -C /repo checkout -- .` straight afterwards.
Prints which rules fire.  /repo must be clean when this starts.
"""
import json, os, subprocess, sys
VERIF = os.path.dirname(os.path.dirname(os.path.abspath(__file__)))
REPO = '/repo'


def main():
    st = subprocess.run(['git', '-C', REPO, 'status', '--porcelain', '--untracked-files=no'], stdout=subprocess.PIPE, text=True).stdout.strip()
    if st:
        print('refusing: /repo has local modifications:\n' + st)
        return 2
    props = [c['property_id'] for c in json.load(open(os.path.join(VERIF, 'MANIFEST.json')))['checks']]
    seeds = sorted(d for d in os.listdir(os.path.join(VERIF, 'seeded')) if os.path.isfile(os.path.join(VERIF, 'seeded', d, 'meta.json')))
    if len(sys.argv) > 1:
        seeds = [s for s in seeds if s in sys.argv[1:]]
    summary = {}
    for s in seeds:
        d = os.path.join(VERIF, 'seeded', s)
        meta = json.load(open(os.path.join(d, 'meta.json')))
        r = subprocess.run(['git', '-C', REPO, 'apply', os.path.join(d, 'patch.diff')], stdout=subprocess.PIPE, stderr=subprocess.STDOUT, text=True)
        if r.returncode != 0:
            print('%-34s patch does not apply: %s' % (s, r.stdout.strip()[:100]))
            summary[s] = 'noapply'
            continue
        fired = {}
        try:
            env = dict(os.environ, JLS_NO_EVIDENCE='1')
            for p in props:
                out = subprocess.run([os.path.join(VERIF, 'check'), p, '--json'], stdout=subprocess.PIPE, stderr=subprocess.STDOUT, text=True, env=env)
                rules = sorted(set('%s@%s' % (json.loads(l[7:])['rule'], json.loads(l[7:])['function']) for l in out.stdout.splitlines() if l.startswith('FAILED ')))
                if out.returncode == 1:
                    fired[p] = rules
                elif out.returncode == 2:
                    fired[p] = ['exit 2: ' + ' '.join(l for l in out.stdout.splitlines() if 'BROKEN' in l)[:160]]
        finally:
            subprocess.run(['git', '-C', REPO, 'checkout', '--', '.'])
        target = meta['property']
        hit = target in fired and not fired[target][0].startswith('exit 2')
        print('%-34s %-4s %s  %s' % (s, target, 'CAUGHT' if hit else 'MISSED', json.dumps(fired)))
        summary[s] = {'target': target, 'caught': hit, 'fired': fired}
    json.dump(summary, open(os.path.join(VERIF, 'seeded', 'results.json'), 'w'), indent=1, sort_keys=True)
    return 0


if __name__ == '__main__':
    sys.exit(main())
