#!/bin/sh
# Build the library objects of the tree this is run in plus the demo into a
# temporary directory, then run the demo.  Invoke from the worktree root.
set -e
ROOT=$(pwd)
HERE=$(cd "$(dirname "$0")" && pwd)
TMP=$(mktemp -d)
trap 'rm -rf "$TMP"' EXIT
SRCS="bit_shift buffer datatype copy core crc32c ec log msg_ring_buffer raw tmap reader statistics threaded_writer track wr_fsr wr_ts writer backend_posix"
for f in $SRCS; do
    cc -std=gnu99 -O1 -g -DJLS_OPTIMIZE_CRC_DISABLE=1 -I"$ROOT/include" -I"$ROOT/include_prv" \
        -c "$ROOT/src/$f.c" -o "$TMP/$f.o"
done
cc -std=gnu99 -O1 -g -I"$ROOT/include" "$HERE/demo.c" "$TMP"/*.o -o "$TMP/demo" -lm -lpthread
set +e
timeout 120 "$TMP/demo" "$TMP/demo.jls"
rc=$?
exit $rc
