/*
 * UNMODIFIED-tree finding (C02): level-0 statistics of an U1 signal whose last data
 * block holds a sample count that is not a multiple of 8.  jls_dt_buffer_to_f64
 * converts only samples/8 whole bytes, so the last (count % 8) samples of that block
 * are taken from whatever the f64 scratch held before.
 */
#include "jls/writer.h"
#include "jls/reader.h"
#include "jls/format.h"
#include <stdio.h>
#include <string.h>
#include <stdint.h>
#include <unistd.h>
#define SPD 4096
#define N (SPD * 3 + 13)
static const struct jls_source_def_s SOURCE = {
    .source_id = 1, .name = "s", .vendor = "v", .model = "m", .version = "1", .serial_number = "1",
};
int main(int argc, char ** argv) {
    const char * path = argv[1];
    struct jls_signal_def_s def;
    memset(&def, 0, sizeof(def));
    def.signal_id = 1; def.source_id = 1; def.signal_type = JLS_SIGNAL_TYPE_FSR;
    def.data_type = JLS_DATATYPE_U1; def.sample_rate = 1000; def.samples_per_data = SPD;
    def.sample_decimate_factor = 256; def.entries_per_summary = 160; def.summary_decimate_factor = 10;
    def.name = "u1"; def.units = "";
    static uint8_t p[(N + 7) / 8];
    // blocks 0..2: all ones (block 1,2 are constant -> omitted); tail: 13 samples all zero
    memset(p, 0xff, SPD * 3 / 8);
    p[5] = 0x7f;  // keep block 0 non-constant
    p[SPD*3/8] = 0x01; p[SPD*3/8+1] = 0x00;  // tail: 1 then twelve zeros
    struct jls_wr_s * wr = NULL;
    if (jls_wr_open(&wr, path)) return 2;
    jls_wr_source_def(wr, &SOURCE);
    if (jls_wr_signal_def(wr, &def)) return 2;
    if (jls_wr_fsr(wr, 1, 0, p, N)) return 2;
    if (jls_wr_close(wr)) return 2;
    struct jls_rd_s * rd = NULL;
    if (jls_rd_open(&rd, path)) return 2;
    int64_t len = 0;
    jls_rd_fsr_length(rd, 1, &len);
    printf("length=%lld (written %d)\n", (long long) len, N);
    double r[4];
    int fail = 0;
    // prime the scratch with ones
    int32_t rc = jls_rd_fsr_statistics(rd, 1, SPD * 2, 100, r, 1);
    printf("prime rc=%d mean=%f\n", rc, r[0]);
    rc = jls_rd_fsr_statistics(rd, 1, SPD * 3 + 8, 5, r, 1);
    printf("tail rc=%d mean=%f min=%f max=%f (true: all 0)\n", rc, r[JLS_SUMMARY_FSR_MEAN], r[JLS_SUMMARY_FSR_MIN], r[JLS_SUMMARY_FSR_MAX]);
    if (rc || r[JLS_SUMMARY_FSR_MEAN] != 0.0 || r[JLS_SUMMARY_FSR_MAX] != 0.0) fail = 1;
    rc = jls_rd_fsr_statistics(rd, 1, SPD * 3 + 1, 12, r, 1);
    printf("tail13 rc=%d mean=%f min=%f max=%f (true: all 0)\n", rc, r[JLS_SUMMARY_FSR_MEAN], r[JLS_SUMMARY_FSR_MIN], r[JLS_SUMMARY_FSR_MAX]);
    if (rc || r[JLS_SUMMARY_FSR_MEAN] != 0.0 || r[JLS_SUMMARY_FSR_MAX] != 0.0) fail = 1;
    uint8_t out[2] = {0xAA, 0xAA};
    rc = jls_rd_fsr(rd, 1, SPD * 3, out, 13);
    printf("fsr rc=%d %02x %02x\n", rc, out[0], out[1]);
    jls_rd_close(rd);
    unlink(path);
    return fail;
}
