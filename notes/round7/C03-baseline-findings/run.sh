#!/bin/sh
# usage: sh seed_out/<name>/run.sh   (from the worktree root)
set -e
HERE=$(cd "$(dirname "$0")" && pwd)
ROOT=$(cd "$HERE/../.." && pwd)
T=$(mktemp -d)
trap 'rm -rf "$T"' EXIT
CFLAGS="-std=gnu99 -O1 -g -msse4.2 -I$ROOT/include -I$ROOT/include_prv"
for f in "$ROOT"/src/*.c; do
    b=$(basename "$f" .c)
    case "$b" in backend_win|crc32c_arm_neon|crc32c_intel_sse4|crc32c_sw) continue;; esac
    cc $CFLAGS -Wall -Wextra -Wpedantic -Werror -c "$f" -o "$T/$b.o"
done
cc $CFLAGS ${DEMO_DEFS} -Wall -Wextra -c "$HERE/demo.c" -o "$T/demo.o"
cc -o "$T/demo" "$T"/*.o -lm -lpthread
set +e
TMPDIR="$T" timeout ${DEMO_TIMEOUT:-900} "$T/demo" --with-close --first 4900 "$@"
rc=$?
echo "exit code $rc"
exit $rc
