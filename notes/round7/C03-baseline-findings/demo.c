/*
 * C03 crash-point harness.
 *
 * Records every backend write() of a writer program, then, for every crash
 * point (k complete writes, plus byte prefixes of write k+1), rebuilds the file
 * image, opens it with the reader and checks that what is exposed is a correct
 * prefix of what was submitted.
 *
 * exit 0: property holds at every examined crash point.
 * exit 1: violation (first ones are printed).
 */
#define _GNU_SOURCE
#include "jls/writer.h"
#include "jls/reader.h"
#include "jls/format.h"
#include "jls/ec.h"
#include "jls/log.h"
#include <stdio.h>
#include <stdarg.h>
#include <stdlib.h>
#include <string.h>
#include <stdint.h>
#include <inttypes.h>
#include <math.h>
#include <unistd.h>
#include <fcntl.h>
#include <signal.h>
#include <sys/syscall.h>
#include <sys/types.h>

#ifndef PROGRAM
#define PROGRAM 0
#endif

// ---------------------------------------------------------------- journal
#define NSIGS 5   // signal ids 1..4 used

struct progress_s {
    int64_t submitted[NSIGS];        // samples handed to jls_wr_fsr, including the call in progress
    int64_t completed[NSIGS];        // samples handed over by calls that returned
    int anno[NSIGS];                 // annotations submitted (including in progress)
    int utc[NSIGS];
    int user;
    int defs_done;                  // all source / signal definitions returned
};

struct op_s {
    int64_t off;
    uint32_t len;
    uint8_t * data;
    struct progress_s p;
};

static struct op_s * ops_;
static size_t ops_n_;
static size_t ops_cap_;
static int rec_;
static size_t close_op_;      // first write issued by jls_wr_close
static struct progress_s cur_;

ssize_t write(int fd, const void * buf, size_t n) {
    if (rec_ && (fd > 2)) {
        if (ops_n_ == ops_cap_) {
            ops_cap_ = ops_cap_ ? ops_cap_ * 2 : 1024;
            ops_ = realloc(ops_, ops_cap_ * sizeof(*ops_));
        }
        struct op_s * op = &ops_[ops_n_++];
        op->off = (int64_t) syscall(SYS_lseek, fd, (off_t) 0, SEEK_CUR);
        op->len = (uint32_t) n;
        op->data = malloc(n ? n : 1);
        memcpy(op->data, buf, n);
        op->p = cur_;
    }
    return syscall(SYS_write, fd, buf, n);
}

// ---------------------------------------------------------------- model
struct sigcfg_s {
    uint16_t id;
    uint32_t data_type;
    uint32_t spd, sdf, eps, sumdf;   // as requested
    int64_t total;
    int64_t offset;                  // first sample id
    int strict_lower;                // check the "loses at most" clause
};

static struct sigcfg_s cfg_[NSIGS];
static struct jls_signal_def_s defs_[NSIGS];   // as aligned by the library (read back)

static inline uint32_t mix(uint32_t x) {
    x ^= x >> 16; x *= 0x7feb352dU; x ^= x >> 15; x *= 0x846ca68bU; x ^= x >> 16;
    return x;
}

static float gen_f32(uint16_t sig, int64_t i) {
    uint32_t h = mix((uint32_t) i * 2654435761U + sig * 977U);
    float noise = ((float) (h & 0xffff)) / 65536.0f - 0.5f;
    float trend = (float) ((i / 97) % 23) * 0.125f;
    return noise + trend;
}

static uint8_t gen_u8(uint16_t sig, int64_t i) {
    int64_t b = i / 32;
    if (((b % 11) >= 3) && ((b % 11) <= 6)) {
        return (uint8_t) (((b / 11) * 5 + 3) & 0x7f);     // constant blocks: omitted by the writer
    }
    return (uint8_t) (mix((uint32_t) i + sig * 31U) & 0xff);
}

static uint8_t gen_u1(uint16_t sig, int64_t i) {
    return (uint8_t) ((mix((uint32_t) i * 3U + sig) >> 7) & 1);
}

static double sample_value(const struct sigcfg_s * c, int64_t i) {
    switch (c->data_type) {
        case JLS_DATATYPE_F32: return gen_f32(c->id, i);
        case JLS_DATATYPE_U8: return gen_u8(c->id, i);
        case JLS_DATATYPE_U1: return gen_u1(c->id, i);
        default: return 0.0;
    }
}

// pack samples [i0, i0+n) ; for U1, i0 and n are multiples of 8
static void gen_pack(const struct sigcfg_s * c, int64_t i0, int64_t n, uint8_t * dst) {
    switch (c->data_type) {
        case JLS_DATATYPE_F32:
            for (int64_t k = 0; k < n; ++k) { ((float *) dst)[k] = gen_f32(c->id, i0 + k); }
            break;
        case JLS_DATATYPE_U8:
            for (int64_t k = 0; k < n; ++k) { dst[k] = gen_u8(c->id, i0 + k); }
            break;
        case JLS_DATATYPE_U1:
            memset(dst, 0, (size_t) ((n + 7) / 8));
            for (int64_t k = 0; k < n; ++k) { dst[k / 8] |= (uint8_t) (gen_u1(c->id, i0 + k) << (k % 8)); }
            break;
        default:
            break;
    }
}

#define ANNO_MAX 4096
struct anno_s { int64_t ts; float y; uint8_t type; uint8_t storage; uint8_t group; char data[48]; uint32_t size; };
static struct anno_s annos_[NSIGS][ANNO_MAX];
struct utc_s { int64_t sample_id; int64_t utc; };
static struct utc_s utcs_[NSIGS][ANNO_MAX];
struct user_s { uint16_t meta; uint8_t storage; char data[48]; uint32_t size; };
static struct user_s users_[ANNO_MAX];

// ---------------------------------------------------------------- writer programs
#define REQ(x) do { int32_t rc__ = (x); if (rc__) { printf("writer: %s -> %d\n", #x, (int) rc__); exit(3); } } while (0)

static void sig_define(struct jls_wr_s * wr, const struct sigcfg_s * c) {
    struct jls_signal_def_s def;
    memset(&def, 0, sizeof(def));
    def.signal_id = c->id;
    def.source_id = 1;
    def.signal_type = JLS_SIGNAL_TYPE_FSR;
    def.data_type = c->data_type;
    def.sample_rate = 1000;
    def.samples_per_data = c->spd;
    def.sample_decimate_factor = c->sdf;
    def.entries_per_summary = c->eps;
    def.summary_decimate_factor = c->sumdf;
    def.annotation_decimate_factor = 3;
    def.utc_decimate_factor = 3;
    def.name = (c->id == 1) ? "one" : "other";
    def.units = "V";
    REQ(jls_wr_signal_def(wr, &def));
}

static void submit(struct jls_wr_s * wr, struct sigcfg_s * c, int64_t n) {
    static uint8_t buf[1 << 20];
    int64_t done = cur_.completed[c->id];
    if (done + n > c->total) {
        n = c->total - done;
    }
    if (n <= 0) {
        return;
    }
    if (c->data_type == JLS_DATATYPE_U1) {
        n = (n + 7) & ~7LL;
        if (done + n > c->total) { n = c->total - done; }
    }
    gen_pack(c, done, n, buf);
    cur_.submitted[c->id] = done + n;
    REQ(jls_wr_fsr(wr, c->id, c->offset + done, buf, (uint32_t) n));
    cur_.completed[c->id] = done + n;
}

static void annotate(struct jls_wr_s * wr, uint16_t sig, int64_t ts, int text) {
    int k = cur_.anno[sig];
    struct anno_s * a = &annos_[sig][k];
    a->ts = ts;
    a->y = (float) k * 0.5f;
    a->type = text ? JLS_ANNOTATION_TYPE_TEXT : JLS_ANNOTATION_TYPE_USER;
    a->group = (uint8_t) (k & 3);
    if (text) {
        a->storage = JLS_STORAGE_TYPE_STRING;
        a->size = (uint32_t) snprintf(a->data, sizeof(a->data), "anno %d of signal %d", k, (int) sig) + 1;
    } else {
        a->storage = JLS_STORAGE_TYPE_BINARY;
        a->size = 5 + (uint32_t) (k % 7);
        for (uint32_t i = 0; i < a->size; ++i) { a->data[i] = (char) (k * 3 + i); }
    }
    cur_.anno[sig] = k + 1;
    REQ(jls_wr_annotation(wr, sig, ts, a->y, a->type, a->group, a->storage, (const uint8_t *) a->data, a->size));
}

static void utc(struct jls_wr_s * wr, uint16_t sig, int64_t sample_id) {
    int k = cur_.utc[sig];
    utcs_[sig][k].sample_id = sample_id;
    utcs_[sig][k].utc = 1000000000LL + sample_id * 1048576LL + k;
    cur_.utc[sig] = k + 1;
    REQ(jls_wr_utc(wr, sig, sample_id, utcs_[sig][k].utc));
}

static void user(struct jls_wr_s * wr) {
    int k = cur_.user;
    struct user_s * u = &users_[k];
    u->meta = (uint16_t) (k + 1);
    if (k & 1) {
        u->storage = JLS_STORAGE_TYPE_STRING;
        u->size = (uint32_t) snprintf(u->data, sizeof(u->data), "user data %d", k) + 1;
    } else {
        u->storage = JLS_STORAGE_TYPE_BINARY;
        u->size = 3 + (uint32_t) (k % 20);
        for (uint32_t i = 0; i < u->size; ++i) { u->data[i] = (char) (k + i * 7); }
    }
    cur_.user = k + 1;
    REQ(jls_wr_user_data(wr, u->meta, u->storage, (const uint8_t *) u->data, u->size));
}

static const struct jls_source_def_s SOURCE_1 = {
    .source_id = 1, .name = "src", .vendor = "v", .model = "m", .version = "1", .serial_number = "sn",
};

static void program_run(const char * path) {
    struct jls_wr_s * wr = NULL;
    memset(&cur_, 0, sizeof(cur_));
    memset(cfg_, 0, sizeof(cfg_));
#if PROGRAM == 0
    // several signals and types interleaved, small decimations, 3 levels on disk for signal 1
    cfg_[1] = (struct sigcfg_s) {.id=1, .data_type=JLS_DATATYPE_F32, .spd=32, .sdf=16, .eps=10, .sumdf=10, .total=16900, .offset=0, .strict_lower=1};
    cfg_[2] = (struct sigcfg_s) {.id=2, .data_type=JLS_DATATYPE_U8, .spd=32, .sdf=32, .eps=10, .sumdf=10, .total=5000, .offset=0, .strict_lower=0};
    cfg_[3] = (struct sigcfg_s) {.id=3, .data_type=JLS_DATATYPE_F32, .total=20000, .offset=1000, .strict_lower=1};  // defaults
    cfg_[4] = (struct sigcfg_s) {.id=4, .data_type=JLS_DATATYPE_U1, .spd=256, .sdf=256, .eps=10, .sumdf=10, .total=9000, .offset=0, .strict_lower=0};
#elif PROGRAM == 1
    // one signal, 4 summary levels on disk
    cfg_[1] = (struct sigcfg_s) {.id=1, .data_type=JLS_DATATYPE_F32, .spd=16, .sdf=16, .eps=10, .sumdf=10, .total=163000, .offset=0, .strict_lower=1};
#elif PROGRAM == 2
    // few samples: 1 level, annotations / utc dominated
    cfg_[1] = (struct sigcfg_s) {.id=1, .data_type=JLS_DATATYPE_F32, .spd=32, .sdf=16, .eps=10, .sumdf=10, .total=700, .offset=0, .strict_lower=1};
    cfg_[2] = (struct sigcfg_s) {.id=2, .data_type=JLS_DATATYPE_U8, .spd=32, .sdf=32, .eps=10, .sumdf=10, .total=900, .offset=0, .strict_lower=0};
#elif PROGRAM == 3
    // two signals of the same type and layout, interleaved; 2 levels on disk
    cfg_[1] = (struct sigcfg_s) {.id=1, .data_type=JLS_DATATYPE_F32, .spd=32, .sdf=16, .eps=10, .sumdf=10, .total=3700, .offset=0, .strict_lower=1};
    cfg_[2] = (struct sigcfg_s) {.id=2, .data_type=JLS_DATATYPE_F32, .spd=32, .sdf=16, .eps=10, .sumdf=10, .total=3500, .offset=0, .strict_lower=1};
    cfg_[3] = (struct sigcfg_s) {.id=3, .data_type=JLS_DATATYPE_U8, .spd=32, .sdf=32, .eps=10, .sumdf=10, .total=2000, .offset=0, .strict_lower=0};
#endif

    rec_ = 1;
    REQ(jls_wr_open(&wr, path));
    REQ(jls_wr_source_def(wr, &SOURCE_1));
    for (int s = 1; s < NSIGS; ++s) {
        if (cfg_[s].id) {
            sig_define(wr, &cfg_[s]);
        }
    }
    cur_.defs_done = 1;

    int64_t tick = 0;
    int more = 1;
    while (more) {
        more = 0;
        for (int s = 1; s < NSIGS; ++s) {
            struct sigcfg_s * c = &cfg_[s];
            if (!c->id || (cur_.completed[s] >= c->total)) {
                continue;
            }
            more = 1;
            int64_t n;
            if (c->spd) {
                n = 1 + (int64_t) (mix((uint32_t) (tick * 5 + s)) % c->spd);   // at most one block per call
            } else {
                n = 1 + (int64_t) (mix((uint32_t) (tick * 5 + s)) % 4000);
            }
#if PROGRAM == 1
            n = 16 * (1 + (tick % 3));
            if (n > 16) { n = 16; }
#endif
            submit(wr, c, n);
        }
#if PROGRAM != 1
        if ((tick % 9) == 4) {
            annotate(wr, 1, cur_.completed[1] / 2 + tick, 1);
        }
        if (((tick % 13) == 6) && cfg_[2].id) {
            annotate(wr, 2, tick * 3, 0);
        }
        if ((tick % 7) == 3) {
            utc(wr, 1, cur_.completed[1]);
        }
        if ((tick % 31) == 11) {
            user(wr);
        }
#else
        if ((tick % 1000) == 500) {
            annotate(wr, 1, tick, 1);
            utc(wr, 1, cur_.completed[1]);
        }
#endif
        ++tick;
    }
    close_op_ = ops_n_;
    REQ(jls_wr_close(wr));
    rec_ = 0;
}

// ---------------------------------------------------------------- oracle
static int failures_;
static size_t point_k_;
static uint32_t point_prefix_;

static int strict_;
static int soft_;
static int soft_count_;

static void fail(const char * fmt, ...) {
    va_list arg;
    if (soft_) {
        soft_ = 0;
        ++soft_count_;
        if (!strict_) {
            return;
        }
    }
    ++failures_;
    if (failures_ > 12) {
        return;
    }
    printf("VIOLATION at crash point k=%zu prefix=%u (op off=%" PRIi64 " len=%u): ",
           point_k_, point_prefix_,
           (point_k_ < ops_n_) ? ops_[point_k_].off : -1, (point_k_ < ops_n_) ? ops_[point_k_].len : 0);
    va_start(arg, fmt);
    vprintf(fmt, arg);
    va_end(arg);
    printf("\n");
    fflush(stdout);
}

static void on_log(const char * msg) {
    printf("    %s", msg);
}

static void on_alarm(int sig) {
    (void) sig;
    static const char msg[] = "VIOLATION: reader did not terminate (timeout)\n";
    syscall(SYS_write, 1, msg, sizeof(msg) - 1);
    _exit(1);
}

struct anno_ctx_s { uint16_t sig; int count; int limit; int bad; };

static int32_t on_anno(void * user_data, const struct jls_annotation_s * a) {
    struct anno_ctx_s * c = (struct anno_ctx_s *) user_data;
    if (c->count >= c->limit) {
        c->bad = 1;
        ++c->count;
        return 1;
    }
    const struct anno_s * e = &annos_[c->sig][c->count];
    if ((a->timestamp != e->ts) || (a->annotation_type != e->type) || (a->storage_type != e->storage)
            || (a->group_id != e->group) || (a->y != e->y) || (a->data_size != e->size)
            || (0 != memcmp(a->data, e->data, e->size))) {
        c->bad = 2;
    }
    ++c->count;
    return 0;
}

struct utc_ctx_s { uint16_t sig; int count; int limit; int bad; int64_t offset; };

static int32_t on_utc(void * user_data, const struct jls_utc_summary_entry_s * u, uint32_t size) {
    struct utc_ctx_s * c = (struct utc_ctx_s *) user_data;
    for (uint32_t i = 0; i < size; ++i) {
        if (c->count >= c->limit) {
            c->bad = 1;
            ++c->count;
            return 1;
        }
        const struct utc_s * e = &utcs_[c->sig][c->count];
        if ((u[i].sample_id + c->offset != e->sample_id) || (u[i].timestamp != e->utc)) {
            c->bad = 2;
        }
        ++c->count;
    }
    return 0;
}

struct user_ctx_s { int count; int limit; int bad; };

static int32_t on_user(void * user_data, uint16_t chunk_meta, enum jls_storage_type_e storage_type,
                       uint8_t * data, uint32_t data_size) {
    struct user_ctx_s * c = (struct user_ctx_s *) user_data;
    if (c->count >= c->limit) {
        c->bad = 1;
        ++c->count;
        return 1;
    }
    const struct user_s * e = &users_[c->count];
    if ((chunk_meta != e->meta) || ((uint8_t) storage_type != e->storage) || (data_size != e->size)
            || (0 != memcmp(data, e->data, e->size))) {
        c->bad = 2;
    }
    ++c->count;
    return 0;
}

static void check_stats(struct jls_rd_s * rd, const struct sigcfg_s * c, int64_t length, int64_t incr) {
    static double out[4096][4];
    if (incr <= 0) {
        return;
    }
    int64_t n = length / incr;
    if (n <= 0) {
        return;
    }
    if (n > 4096) {
        n = 4096;
    }
    int32_t rc = jls_rd_fsr_statistics(rd, c->id, 0, incr, &out[0][0], n);
    if (rc) {
        soft_ = 1;
        fail("signal %d statistics(incr=%" PRIi64 ", n=%" PRIi64 ") of length %" PRIi64 " returned %d",
             (int) c->id, incr, n, length, (int) rc);
        return;
    }
    for (int64_t w = 0; w < n; ++w) {
        double mean = 0.0, vmin = 1e300, vmax = -1e300, var = 0.0;
        for (int64_t i = 0; i < incr; ++i) {
            double v = sample_value(c, w * incr + i);
            mean += v;
            if (v < vmin) { vmin = v; }
            if (v > vmax) { vmax = v; }
        }
        mean /= (double) incr;
        for (int64_t i = 0; i < incr; ++i) {
            double v = sample_value(c, w * incr + i) - mean;
            var += v * v;
        }
        double std_pop = sqrt(var / (double) incr);
        double std_smp = (incr > 1) ? sqrt(var / (double) (incr - 1)) : 0.0;
        double scale = (c->data_type == JLS_DATATYPE_U8) ? 256.0 : 4.0;
        double tol = 2e-3 * scale;
        double * o = out[w];
        int std_ok = (fabs(o[JLS_SUMMARY_FSR_STD] - std_pop) <= 10 * tol) || (fabs(o[JLS_SUMMARY_FSR_STD] - std_smp) <= 10 * tol);
        if ((fabs(o[JLS_SUMMARY_FSR_MEAN] - mean) > tol) || (fabs(o[JLS_SUMMARY_FSR_MIN] - vmin) > tol)
                || (fabs(o[JLS_SUMMARY_FSR_MAX] - vmax) > tol) || !std_ok) {
            fail("signal %d statistics window %" PRIi64 " (incr=%" PRIi64 ", length=%" PRIi64 ") = mean %g std %g min %g max %g,"
                 " expected mean %g std %g min %g max %g",
                 (int) c->id, w, incr, length, o[JLS_SUMMARY_FSR_MEAN], o[JLS_SUMMARY_FSR_STD],
                 o[JLS_SUMMARY_FSR_MIN], o[JLS_SUMMARY_FSR_MAX], mean, std_pop, vmin, vmax);
            return;
        }
    }
}

static void check_image(const char * path, const struct progress_s * p, int clean) {
    struct jls_rd_s * rd = NULL;
    static uint8_t buf[1 << 20];
    static uint8_t expect[1 << 20];
    alarm(20);
    int32_t rc = jls_rd_open(&rd, path);
    if (rc) {
        if (clean && p->defs_done) {
            fail("open failed with %d (%s) between two complete writes, definitions on disk", (int) rc, jls_error_code_name(rc));
        }
        alarm(0);
        return;
    }

    struct jls_signal_def_s * signals = NULL;
    uint16_t count = 0;
    rc = jls_rd_signals(rd, &signals, &count);
    if (rc) {
        fail("jls_rd_signals returned %d", (int) rc);
        count = 0;
    }
    int present[NSIGS] = {0};
    for (uint16_t i = 0; i < count; ++i) {
        uint16_t id = signals[i].signal_id;
        if (0 == id) {
            continue;
        }
        if ((id >= NSIGS) || !cfg_[id].id) {
            fail("reader exposes signal %d that was never defined", (int) id);
            continue;
        }
        present[id] = 1;
        const struct jls_signal_def_s * d = &defs_[id];
        if ((signals[i].data_type != d->data_type) || (signals[i].samples_per_data != d->samples_per_data)
                || (signals[i].sample_decimate_factor != d->sample_decimate_factor)
                || (signals[i].entries_per_summary != d->entries_per_summary)
                || (signals[i].summary_decimate_factor != d->summary_decimate_factor)
                || (signals[i].sample_rate != d->sample_rate)
                || (0 != strcmp(signals[i].name, d->name))) {
            fail("signal %d definition differs from the one written", (int) id);
        }
    }
    if (clean && p->defs_done) {
        for (int s = 1; s < NSIGS; ++s) {
            if (cfg_[s].id && !present[s]) {
                fail("signal %d missing although its definition was on disk", s);
            }
        }
    }

    for (int s = 1; s < NSIGS; ++s) {
        const struct sigcfg_s * c = &cfg_[s];
        if (!present[s]) {
            continue;
        }
        int64_t length = -1;
        rc = jls_rd_fsr_length(rd, c->id, &length);
        if (rc) {
            soft_ = 1;
            fail("signal %d: length returned %d", s, (int) rc);
            continue;
        }
        if ((length < 0) || (length > p->submitted[s])) {
            fail("signal %d: length %" PRIi64 " exceeds the %" PRIi64 " samples submitted", s, length, p->submitted[s]);
            continue;
        }
        if (clean && p->defs_done && c->strict_lower) {
            int64_t spd = defs_[s].samples_per_data;
            int64_t lower = (p->completed[s] / spd) * spd;
            if (length < lower) {
                fail("signal %d: length %" PRIi64 " but %" PRIi64 " samples were in complete blocks before this call (%" PRIi64 " submitted)",
                     s, length, lower, p->completed[s]);
            }
        }
        if (length > 0) {
            int bits = (c->data_type == JLS_DATATYPE_F32) ? 32 : ((c->data_type == JLS_DATATYPE_U8) ? 8 : 1);
            size_t bytes = (size_t) ((length * bits + 7) / 8);
            memset(buf, 0, bytes);
            rc = jls_rd_fsr(rd, c->id, 0, buf, length);
            if (rc) {
                soft_ = 1;
                fail("signal %d: reading %" PRIi64 " samples returned %d", s, length, (int) rc);
                continue;
            }
            gen_pack(c, 0, length, expect);
            if (bits == 1 && (length % 8)) {
                uint8_t m = (uint8_t) ((1U << (length % 8)) - 1U);
                buf[bytes - 1] &= m;
                expect[bytes - 1] &= m;
            }
            if (0 != memcmp(buf, expect, bytes)) {
                size_t at = 0;
                while (buf[at] == expect[at]) { ++at; }
                fail("signal %d: samples differ from the submitted ones (length %" PRIi64 ", first difference at sample %" PRIi64 ")",
                     s, length, (int64_t) ((at * 8) / bits));
                continue;
            }
            // second, unaligned read
            if (length > 40) {
                int64_t start = length / 3 + 1;
                if (bits == 1) { start &= ~7LL; }
                int64_t n = length - start;
                rc = jls_rd_fsr(rd, c->id, start, buf, n);
                gen_pack(c, start, n, expect);
                size_t nb = (size_t) ((n * bits) / 8);
                if (rc) {
                    soft_ = 1;
                }
                if (rc || memcmp(buf, expect, nb)) {
                    fail("signal %d: partial read [%" PRIi64 ", +%" PRIi64 ") rc=%d differs", s, start, n, (int) rc);
                }
            }
            if (c->data_type != JLS_DATATYPE_U1) {
                int64_t sdf = defs_[s].sample_decimate_factor;
                // windows aligned to the level 1 entries: exact at every level
                check_stats(rd, c, length, (length / sdf) * sdf);
                check_stats(rd, c, length, sdf);
                check_stats(rd, c, length, sdf * 10);
                check_stats(rd, c, length, sdf * 100);
                check_stats(rd, c, length, sdf * 7);
                check_stats(rd, c, length, sdf / 2);
            }
        }

        struct anno_ctx_s actx = {.sig = (uint16_t) s, .count = 0, .limit = p->anno[s], .bad = 0};
        rc = jls_rd_annotations(rd, c->id, -(1LL << 40), on_anno, &actx);
        if (actx.bad == 1) {
            fail("signal %d: more annotations than the %d written", s, p->anno[s]);
        } else if (actx.bad == 2) {
            fail("signal %d: an annotation differs from the one written", s);
        }
        struct utc_ctx_s uctx = {.sig = (uint16_t) s, .count = 0, .limit = p->utc[s], .bad = 0, .offset = 0};
        rc = jls_rd_utc(rd, c->id, -(1LL << 40), on_utc, &uctx);
        if (uctx.bad == 1) {
            fail("signal %d: more UTC entries than the %d written", s, p->utc[s]);
        } else if (uctx.bad == 2) {
            fail("signal %d: a UTC entry differs from the one written (entry %d)", s, uctx.count);
        }
    }

    struct user_ctx_s xctx = {.count = 0, .limit = p->user, .bad = 0};
    rc = jls_rd_user_data(rd, on_user, &xctx);
    if (xctx.bad == 1) {
        fail("more user data than the %d written", p->user);
    } else if (xctx.bad == 2) {
        fail("user data differs from what was written");
    }
    jls_rd_close(rd);
    alarm(0);
}

static void image_store(const char * path, const uint8_t * img, size_t sz) {
    int fd = open(path, O_RDWR | O_CREAT | O_TRUNC, 0644);
    if (fd < 0) {
        printf("cannot create %s\n", path);
        exit(3);
    }
    size_t done = 0;
    while (done < sz) {
        ssize_t n = (ssize_t) syscall(SYS_write, fd, img + done, sz - done);
        if (n <= 0) {
            printf("image write failed\n");
            exit(3);
        }
        done += (size_t) n;
    }
    close(fd);
}

static void apply(uint8_t ** img, size_t * sz, size_t * cap, const struct op_s * op, uint32_t len) {
    size_t end = (size_t) op->off + len;
    if (end > *cap) {
        while (end > *cap) { *cap = *cap ? *cap * 2 : (1 << 16); }
        *img = realloc(*img, *cap);
    }
    if ((size_t) op->off > *sz) {
        memset(*img + *sz, 0, (size_t) op->off - *sz);
    }
    memcpy(*img + op->off, op->data, len);
    if (end > *sz) {
        *sz = end;
    }
}

int main(int argc, char ** argv) {
    char path[256];
    char path_img[256];
    const char * dir = getenv("TMPDIR") ? getenv("TMPDIR") : "/tmp";
    size_t stride = 1;
    size_t k_first = 0;
    size_t k_last = (size_t) -1;
    int dense = 0;
    int logging = 0;
    int with_close = 0;
    for (int i = 1; i < argc; ++i) {
        if (0 == strcmp(argv[i], "--stride") && (i + 1 < argc)) { stride = (size_t) atol(argv[++i]); }
        else if (0 == strcmp(argv[i], "--first") && (i + 1 < argc)) { k_first = (size_t) atol(argv[++i]); }
        else if (0 == strcmp(argv[i], "--last") && (i + 1 < argc)) { k_last = (size_t) atol(argv[++i]); }
        else if (0 == strcmp(argv[i], "--dense")) { dense = 1; }
        else if (0 == strcmp(argv[i], "--log")) { logging = 1; }
        else if (0 == strcmp(argv[i], "--strict")) { strict_ = 1; }
        else if (0 == strcmp(argv[i], "--with-close")) { with_close = 1; }
    }
    snprintf(path, sizeof(path), "%s/c03_demo_%d.jls", dir, (int) getpid());
    snprintf(path_img, sizeof(path_img), "%s/c03_demo_%d_img.jls", dir, (int) getpid());
    signal(SIGALRM, on_alarm);

    program_run(path);

    // read the aligned definitions back from the complete file; the complete file must be fully correct, too
    {
        struct jls_rd_s * rd = NULL;
        if (jls_rd_open(&rd, path)) {
            printf("cannot open the complete file\n");
            return 3;
        }
        for (int s = 1; s < NSIGS; ++s) {
            if (cfg_[s].id) {
                static char names[NSIGS][32];
                if (jls_rd_signal(rd, (uint16_t) s, &defs_[s])) {
                    printf("complete file: signal %d missing\n", s);
                    return 3;
                }
                snprintf(names[s], sizeof(names[s]), "%s", defs_[s].name);
                defs_[s].name = names[s];
            }
        }
        jls_rd_close(rd);
    }
    printf("program %d: %zu writes recorded\n", PROGRAM, ops_n_);
    if (logging) {
        jls_log_register(on_log);
    }
    if (!with_close && (k_last > close_op_)) {
        k_last = close_op_;  // crash points inside jls_wr_close are examined only on request
    }

    uint8_t * img = NULL;
    size_t sz = 0;
    size_t cap = 0;
    uint8_t * img2 = NULL;
    size_t cap2 = 0;
    size_t points = 0;

    for (size_t k = 0; k <= ops_n_; ++k) {
        // img holds k complete writes
        int selected = (k >= k_first) && (k <= k_last) && ((0 == (k % stride)) || (k < 64));
        if (selected) {
            struct progress_s p;
            if (k < ops_n_) {
                p = ops_[k].p;  // the call that issues write k was already running, or is the next to start
            } else {
                p = cur_;
            }
            point_k_ = k;
            point_prefix_ = 0;
            image_store(path_img, img, sz);
            check_image(path_img, &p, 1);
            ++points;

            if (k < ops_n_) {
                const struct op_s * op = &ops_[k];
                uint32_t cand[80];
                int nc = 0;
                if (dense) {
                    uint32_t step = (op->len <= 48) ? 1 : ((op->len + 62) / 63);
                    for (uint32_t b = 1; (b < op->len) && (nc < 70); b += step) { cand[nc++] = b; }
                } else {
                    cand[nc++] = 1;
                    cand[nc++] = op->len / 2;
                }
                if (op->len > 1) { cand[nc++] = op->len - 1; }
                for (int ci = 0; ci < nc; ++ci) {
                    if ((cand[ci] == 0) || (cand[ci] >= op->len)) { continue; }
                    if (sz + op->len + 16 > cap2) {
                        cap2 = (sz + op->len + 16) * 2;
                        img2 = realloc(img2, cap2);
                    }
                    memcpy(img2, img, sz);
                    size_t sz2 = sz;
                    size_t capx = cap2;
                    apply(&img2, &sz2, &capx, op, cand[ci]);
                    point_prefix_ = cand[ci];
                    image_store(path_img, img2, sz2);
                    check_image(path_img, &p, 0);
                    ++points;
                }
            }
        }
        if (k < ops_n_) {
            apply(&img, &sz, &cap, &ops_[k], ops_[k].len);
        }
        if (failures_ > 12) {
            break;
        }
    }
    unlink(path);
    unlink(path_img);
    printf("%zu crash points examined, %d violations (%d calls on a repaired file returned an error%s)\n",
           points, failures_, soft_count_, strict_ ? ", counted" : ", tolerated");
    return failures_ ? 1 : 0;
}
