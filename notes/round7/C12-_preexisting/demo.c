// Observation on the UNMODIFIED tree: UTC pairs whose sample id lies more than
// one hour of samples before the signal's first sample are returned by
// jls_rd_utc() but are left out of the id <-> time map.
#include "jls/writer.h"
#include "jls/reader.h"
#include "jls/time.h"
#include <stdio.h>
#include <inttypes.h>

#define CHECK(x) do { int32_t rc__ = (x); if (rc__) { printf("FAIL: %s -> %d (line %d)\n", #x, (int) rc__, __LINE__); return 2; } } while (0)

static const struct jls_source_def_s SOURCE = {
    .source_id = 1, .name = "src", .vendor = "v", .model = "m", .version = "1", .serial_number = "sn",
};
static const struct jls_signal_def_s SIGNAL = {
    .signal_id = 3, .source_id = 1, .signal_type = JLS_SIGNAL_TYPE_FSR, .data_type = JLS_DATATYPE_F32,
    .sample_rate = 10, .samples_per_data = 1000, .sample_decimate_factor = 100, .entries_per_summary = 200,
    .summary_decimate_factor = 100, .annotation_decimate_factor = 100, .utc_decimate_factor = 100,
    .name = "sig", .units = "V",
};

static int32_t on_utc(void * user_data, const struct jls_utc_summary_entry_s * utc, uint32_t size) {
    (void) utc;
    *((uint32_t *) user_data) += size;
    return 0;
}

int main(int argc, char * argv[]) {
    const char * path = (argc > 1) ? argv[1] : "c12_pre.jls";
    const int64_t first = 100000;   // first sample id of the signal
    const int64_t t0 = 8 * JLS_TIME_YEAR;
    // file sample id, utc: the clock runs at 10 Hz before the data and 20 Hz during it
    const int64_t id[4] = {0, 50000, 100000, 100200};
    const int64_t t[4] = {t0, t0 + 5000 * JLS_TIME_SECOND, t0 + 10000 * JLS_TIME_SECOND, t0 + 10010 * JLS_TIME_SECOND};
    static float data[400];
    struct jls_wr_s * wr = NULL;
    struct jls_rd_s * rd = NULL;
    int errors = 0;

    CHECK(jls_wr_open(&wr, path));
    CHECK(jls_wr_source_def(wr, &SOURCE));
    CHECK(jls_wr_signal_def(wr, &SIGNAL));
    CHECK(jls_wr_utc(wr, 3, id[0], t[0]));
    CHECK(jls_wr_utc(wr, 3, id[1], t[1]));
    CHECK(jls_wr_fsr_f32(wr, 3, first, data, 400));
    CHECK(jls_wr_utc(wr, 3, id[2], t[2]));
    CHECK(jls_wr_utc(wr, 3, id[3], t[3]));
    CHECK(jls_wr_close(wr));

    CHECK(jls_rd_open(&rd, path));
    uint32_t count = 0;
    CHECK(jls_rd_utc(rd, 3, -first - 1, on_utc, &count));
    printf("jls_rd_utc delivers %u pairs\n", count);
    if (count != 4) {
        ++errors;
    }
    for (int i = 0; i < 4; ++i) {
        int64_t v = 0;
        CHECK(jls_rd_sample_id_to_timestamp(rd, 3, id[i] - first, &v));
        printf("pair %d: id %" PRIi64 " -> %" PRIi64 ", stored %" PRIi64 "%s\n", i, id[i] - first, v, t[i], (v == t[i]) ? "" : "  MISMATCH");
        if (v != t[i]) {
            ++errors;
        }
    }
    jls_rd_close(rd);
    remove(path);
    return errors ? 1 : 0;
}
