#!/bin/sh
# Build the library objects from the tree this is run in plus the demo into a
# temporary directory, run the demo; exit code = demo result.
set -e
HERE=$(cd "$(dirname "$0")" && pwd)
ROOT=$(cd "$HERE/../.." && pwd)
TMP=$(mktemp -d)
trap 'rm -rf "$TMP"' EXIT
CC=${CC:-cc}
SRCS="bit_shift buffer datatype copy core crc32c ec log msg_ring_buffer raw tmap reader statistics threaded_writer track wr_fsr wr_ts writer backend_posix"
for f in $SRCS; do
    $CC -std=gnu99 -O1 -g -Wall -Wextra -Wpedantic -Werror -DJLS_OPTIMIZE_CRC_DISABLE=1 \
        -I"$ROOT/include" -I"$ROOT/include_prv" -c "$ROOT/src/$f.c" -o "$TMP/$f.o"
done
$CC -std=gnu99 -O1 -g -Wall -Wextra -I"$ROOT/include" "$HERE/demo.c" "$TMP"/*.o -o "$TMP/demo" -lm -lpthread
cd "$TMP"
set +e
timeout 120 ./demo "$TMP/demo.jls"
rc=$?
exit $rc
