/*
 * UNMODIFIED-library finding (C09 length clause, integer gap fill):
 * u8 signal, data, then a gap, then a few zero samples.  The last block then
 * holds only zeros (gap fill + zero data), is constant and is therefore
 * omitted from the file; the reader derives the length from the level-1
 * summary, which only counts whole sample_decimate_factor groups, so the
 * length is rounded down (2944 instead of 3010) and the tail cannot be read.
 * The same happens without any gap when the signal ends in a constant partial
 * block; the gap fill of integer signals simply makes such blocks common.
 */
#include "jls/writer.h"
#include "jls/reader.h"
#include <stdio.h>
#include <stdlib.h>
#include <string.h>

static const struct jls_source_def_s SOURCE = {
    .source_id = 1, .name = "src", .vendor = "v", .model = "m", .version = "1", .serial_number = "1",
};
static const struct jls_signal_def_s SIGNAL = {
    .signal_id = 5, .source_id = 1, .signal_type = JLS_SIGNAL_TYPE_FSR, .data_type = JLS_DATATYPE_U8,
    .sample_rate = 1000, .samples_per_data = 1024, .sample_decimate_factor = 128, .entries_per_summary = 256,
    .summary_decimate_factor = 16, .annotation_decimate_factor = 100, .utc_decimate_factor = 100,
    .name = "u8", .units = "",
};
#define CHECK(x) do { int32_t rc__ = (x); if (rc__) { printf("FAIL: %s -> %d (line %d)\n", #x, (int) rc__, __LINE__); exit(2); } } while (0)

int main(int argc, char ** argv) {
    const char * path = (argc > 1) ? argv[1] : "c09_tail.jls";
    static uint8_t buf[4000];
    struct jls_wr_s * w = NULL;
    struct jls_rd_s * r = NULL;
    CHECK(jls_wr_open(&w, path));
    CHECK(jls_wr_source_def(w, &SOURCE));
    CHECK(jls_wr_signal_def(w, &SIGNAL));
    for (int s = 0; s < 1000; ++s) {
        buf[s] = (uint8_t) (1 + (s % 200));
    }
    CHECK(jls_wr_fsr(w, 5, 0, buf, 1000));
    memset(buf, 0, sizeof(buf));
    CHECK(jls_wr_fsr(w, 5, 3000, buf, 10));     // gap 1000..2999, then 10 zero samples
    CHECK(jls_wr_close(w));

    CHECK(jls_rd_open(&r, path));
    int64_t len = 0;
    CHECK(jls_rd_fsr_length(r, 5, &len));
    int bad = 0;
    if (len != 3010) {
        printf("FAIL: length %lld, expected 3010 (= last id + 1 - first id)\n", (long long) len);
        ++bad;
    }
    memset(buf, 0xee, sizeof(buf));
    int32_t rc = jls_rd_fsr(r, 5, 0, buf, 3010);
    if (rc) {
        printf("FAIL: jls_rd_fsr(0, 3010) -> %d\n", (int) rc);
        ++bad;
    } else {
        for (int s = 1000; s < 3010; ++s) {
            if (buf[s]) {
                printf("FAIL: sample %d reads %d, expected 0\n", s, buf[s]);
                ++bad;
                break;
            }
        }
    }
    jls_rd_close(r);
    remove(path);
    if (bad) {
        return 1;
    }
    printf("PASS\n");
    return 0;
}
