#!/bin/sh
# Build the library objects of the tree this is run from plus the demo, run the demo.
# usage (from the worktree root): sh seed_out/<name>/run.sh
set -e
here=$(cd "$(dirname "$0")" && pwd)
root=$(pwd)
tmp=$(mktemp -d)
trap 'rm -rf "$tmp"' EXIT
srcs="bit_shift buffer datatype copy core crc32c ec log msg_ring_buffer raw tmap reader statistics threaded_writer track wr_fsr wr_ts writer backend_posix"
for f in $srcs; do
    cc -std=gnu11 -O1 -g -DJLS_OPTIMIZE_CRC_DISABLE=1 -I"$root/include" -I"$root/include_prv" \
        -c "$root/src/$f.c" -o "$tmp/$f.o"
done
cc -std=gnu11 -O1 -g -I"$root/include" "$here/demo.c" "$tmp"/*.o -o "$tmp/demo" -lm -lpthread
cd "$tmp"
set +e
timeout 120 ./demo "$tmp/demo.jls"
rc=$?
exit $rc
