#!/bin/sh
# Build the library sources of the tree this is run from plus demo.c into a
# temporary directory, then run the demo.  Exit code = demo result.
# Invoke from the worktree root:  sh seed_out/<name>/run.sh
set -e
ROOT=$(pwd)
HERE=$(cd "$(dirname "$0")" && pwd)
TMP=$(mktemp -d /tmp/c16_run.XXXXXX)
trap 'rm -rf "$TMP"' EXIT
SRCS=""
for f in "$ROOT"/src/*.c; do
    case "$(basename "$f")" in
        backend_win.c|crc32c_arm_neon.c|crc32c_intel_sse4.c|crc32c_sw.c) ;;
        *) SRCS="$SRCS $f" ;;
    esac
done
${CC:-cc} -std=gnu99 -O1 -g -Wall -Wextra -DJLS_OPTIMIZE_CRC_DISABLE=1 \
    -I"$ROOT/include" -I"$ROOT/include_prv" \
    -o "$TMP/demo" "$HERE/demo.c" $SRCS -lm -lpthread
set +e
timeout 120 "$TMP/demo"
rc=$?
exit $rc
