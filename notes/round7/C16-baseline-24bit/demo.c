/*
 * C16 demo: a definition read out of one file and used to write another
 * file must be stored with identical parameters (normalisation is stable),
 * and the stored parameters must satisfy the format's relations.
 *
 * exit 0 = property holds for every case, 1 = violated, 2 = setup problem.
 */
#include "jls/writer.h"
#include "jls/reader.h"
#include "jls/format.h"
#include <stdio.h>
#include <stdlib.h>
#include <string.h>
#include <unistd.h>

static char path_a[256];
static char path_b[256];

static const struct jls_source_def_s SOURCE_1 = {
    .source_id = 1, .name = "src", .vendor = "v", .model = "m", .version = "1", .serial_number = "s",
};

static int store(const char * path, const struct jls_signal_def_s * in, struct jls_signal_def_s * out) {
    struct jls_wr_s * wr = NULL;
    struct jls_rd_s * rd = NULL;
    int32_t rc;
    if (jls_wr_open(&wr, path)) { return -1; }
    if (jls_wr_source_def(wr, &SOURCE_1)) { jls_wr_close(wr); return -1; }
    rc = jls_wr_signal_def(wr, in);
    if (jls_wr_close(wr)) { return -1; }
    if (rc) { return 1; }  // rejected: allowed by the property
    if (jls_rd_open(&rd, path)) { return -1; }
    rc = jls_rd_signal(rd, in->signal_id, out);
    if (0 == rc) {  // strings belong to the reader
        out->name = "sig";
        out->units = "V";
    }
    jls_rd_close(rd);
    return rc ? -1 : 0;
}

static int relations_ok(const struct jls_signal_def_s * d) {
    uint32_t bits = jls_datatype_parse_size(d->data_type);
    uint32_t entry_bits_multiple = 256;  // strict reading of the property, 24-bit included
    if ((d->sample_decimate_factor < 10) || (d->samples_per_data < 10)
            || (d->entries_per_summary < 10) || (d->summary_decimate_factor < 10)) {
        return 0;
    }
    if (((uint64_t) d->sample_decimate_factor * bits) % entry_bits_multiple) { return 0; }
    if (d->samples_per_data % d->sample_decimate_factor) { return 0; }
    uint32_t entries_per_data = d->samples_per_data / d->sample_decimate_factor;
    if (d->entries_per_summary % entries_per_data) { return 0; }
    if (d->entries_per_summary % d->summary_decimate_factor) { return 0; }
    return 1;
}

static void show(const char * label, const struct jls_signal_def_s * d) {
    printf("    %s: samples_per_data=%u sample_decimate_factor=%u entries_per_summary=%u summary_decimate_factor=%u\n",
           label, d->samples_per_data, d->sample_decimate_factor,
           d->entries_per_summary, d->summary_decimate_factor);
}

struct case_s {
    uint32_t data_type;
    uint32_t p[4];
};

static const struct case_s CASES[] = {
    {JLS_DATATYPE_I24, {1000, 100, 200, 100}},
    {JLS_DATATYPE_U24, {0, 0, 0, 0}},
    {JLS_DATATYPE_U24, {640, 32, 200, 100}},   // 32 samples would be 768 bits = 3 * 256, but gets rounded to 40
};

int main(void) {
    int failures = 0;
    snprintf(path_a, sizeof(path_a), "/tmp/c16_demo_%d_a.jls", (int) getpid());
    snprintf(path_b, sizeof(path_b), "/tmp/c16_demo_%d_b.jls", (int) getpid());

    for (size_t i = 0; i < sizeof(CASES) / sizeof(CASES[0]); ++i) {
        const struct case_s * c = &CASES[i];
        struct jls_signal_def_s in = {
            .signal_id = 1, .source_id = 1, .signal_type = JLS_SIGNAL_TYPE_FSR,
            .data_type = c->data_type, .sample_rate = 1000,
            .samples_per_data = c->p[0], .sample_decimate_factor = c->p[1],
            .entries_per_summary = c->p[2], .summary_decimate_factor = c->p[3],
            .name = "sig", .units = "V",
        };
        struct jls_signal_def_s a;
        struct jls_signal_def_s b;
        memset(&a, 0, sizeof(a));
        memset(&b, 0, sizeof(b));
        int rc = store(path_a, &in, &a);
        if (rc < 0) { printf("case %zu: setup failed\n", i); return 2; }
        if (rc > 0) { printf("case %zu: rejected (ok)\n", i); continue; }
        int bad = 0;
        if (!relations_ok(&a)) {
            printf("case %zu: stored parameters break the format relations\n", i);
            bad = 1;
        }
        a.signal_id = 1;
        rc = store(path_b, &a, &b);
        if (rc < 0) { printf("case %zu: setup failed (second file)\n", i); return 2; }
        if (rc > 0) {
            printf("case %zu: definition read from a file is rejected when written again\n", i);
            bad = 1;
        } else if ((a.samples_per_data != b.samples_per_data)
                || (a.sample_decimate_factor != b.sample_decimate_factor)
                || (a.entries_per_summary != b.entries_per_summary)
                || (a.summary_decimate_factor != b.summary_decimate_factor)) {
            printf("case %zu: second file uses different parameters than the file the definition came from\n", i);
            bad = 1;
        }
        if (bad) {
            show("requested  ", &in);
            show("first file ", &a);
            show("second file", &b);
            ++failures;
        }
    }
    remove(path_a);
    remove(path_b);
    if (failures) {
        printf("FAIL: %d case(s) violate C16\n", failures);
        return 1;
    }
    printf("PASS\n");
    return 0;
}
