/*
 * C14 write-once trace checker (shared by the C14 demos).
 *
 * The demo executable links the library objects statically and defines
 * write() and ftruncate() itself, so every backend write of the JLS file
 * under test goes through c14_on_write() with its file offset.  A shadow
 * image of the file is kept and every write that touches bytes already
 * present is classified:
 *
 *   - file header (bytes 0..31): may change only once c14_closing is set
 *   - chunk header: only item_next / item_prev (bytes 0..15) and the
 *     header crc (bytes 28..31) may change
 *   - track head table payload: an entry may change only from zero to the
 *     offset of a chunk that is already completely in the file
 *   - any other payload byte (data, pad, crc): must not change
 *   - the file never shrinks, writes never start beyond the current end
 *
 * Violations are counted in c14_violations and printed to stderr.
 */
#ifndef C14_TRACE_H_
#define C14_TRACE_H_

#define _GNU_SOURCE
#include <stdint.h>
#include <stdio.h>
#include <stdlib.h>
#include <string.h>
#include <unistd.h>
#include <errno.h>
#include <pthread.h>
#include <sys/stat.h>
#include <sys/syscall.h>
#include <sys/types.h>

enum { C14_FILEHDR = 1, C14_HDR, C14_PAYLOAD, C14_HEADTAB };

static const char * c14_path = NULL;     // the file under test
static volatile int c14_closing = 0;     // set by the demo just before close
static int c14_violations = 0;
static int c14_inplace_writes = 0;
static int c14_verbose = 0;
static volatile int c14_fail_countdown = 0;  // fail the n-th write from now with ENOSPC

static pthread_mutex_t c14_mutex = PTHREAD_MUTEX_INITIALIZER;
static uint8_t * c14_img = NULL;
static uint8_t * c14_cls = NULL;
static uint32_t * c14_own = NULL;        // index of the owning chunk
static int64_t c14_size = 0;
static int64_t c14_cap = 0;
static int64_t c14_parse_pos = 32;
static int64_t * c14_chunks = NULL;      // offsets of complete chunks
static uint32_t c14_chunk_count = 0;
static uint32_t c14_chunk_cap = 0;

static void c14_fail(const char * msg, int64_t offset) {
    ++c14_violations;
    if (c14_violations <= 20) {
        fprintf(stderr, "C14 VIOLATION @ %lld: %s\n", (long long) offset, msg);
    }
}

static void c14_reserve(int64_t sz) {
    if (sz <= c14_cap) {
        return;
    }
    int64_t cap = c14_cap ? c14_cap : (1 << 20);
    while (cap < sz) {
        cap *= 2;
    }
    c14_img = realloc(c14_img, (size_t) cap);
    c14_cls = realloc(c14_cls, (size_t) cap);
    c14_own = realloc(c14_own, (size_t) cap * sizeof(uint32_t));
    if (!c14_img || !c14_cls || !c14_own) {
        fprintf(stderr, "c14: out of memory\n");
        _exit(99);
    }
    memset(c14_img + c14_cap, 0, (size_t) (cap - c14_cap));
    memset(c14_cls + c14_cap, 0, (size_t) (cap - c14_cap));
    c14_cap = cap;
}

static uint32_t c14_u32(const uint8_t * p) {
    return ((uint32_t) p[0]) | (((uint32_t) p[1]) << 8) | (((uint32_t) p[2]) << 16) | (((uint32_t) p[3]) << 24);
}

static uint64_t c14_u64(const uint8_t * p) {
    return ((uint64_t) c14_u32(p)) | (((uint64_t) c14_u32(p + 4)) << 32);
}

static int c14_is_chunk(int64_t offset) {
    for (uint32_t i = 0; i < c14_chunk_count; ++i) {
        if (c14_chunks[i] == offset) {
            return 1;
        }
    }
    return 0;
}

// classify the chunks that became complete
static void c14_parse(void) {
    while ((c14_size - c14_parse_pos) >= 32) {
        const uint8_t * h = c14_img + c14_parse_pos;
        uint8_t tag = h[16];
        uint32_t payload_length = c14_u32(h + 20);
        int64_t disk = 0;
        if (payload_length) {
            disk = ((int64_t) payload_length + 4 + 7) & ~7LL;
        }
        int64_t total = 32 + disk;
        if ((c14_parse_pos + total) > c14_size) {
            break;
        }
        if (c14_chunk_count >= c14_chunk_cap) {
            c14_chunk_cap = c14_chunk_cap ? (c14_chunk_cap * 2) : 1024;
            c14_chunks = realloc(c14_chunks, c14_chunk_cap * sizeof(int64_t));
        }
        uint32_t idx = c14_chunk_count++;
        c14_chunks[idx] = c14_parse_pos;
        int is_head = (tag >= 0x20) && (tag < 0x40) && ((tag & 7) == 1);  // JLS_TRACK_CHUNK_HEAD
        for (int64_t k = 0; k < total; ++k) {
            c14_cls[c14_parse_pos + k] = (k < 32) ? C14_HDR : (is_head ? C14_HEADTAB : C14_PAYLOAD);
            c14_own[c14_parse_pos + k] = idx;
        }
        c14_parse_pos += total;
    }
}

static void c14_on_write(int64_t offset, const uint8_t * buf, int64_t n) {
    pthread_mutex_lock(&c14_mutex);
    if (offset > c14_size) {
        c14_fail("write starts beyond the end of the file", offset);
    }
    c14_reserve(offset + n);
    int64_t overlap_end = (offset + n < c14_size) ? (offset + n) : c14_size;
    if (offset < c14_size) {
        ++c14_inplace_writes;
        if (c14_verbose) {
            fprintf(stderr, "c14: in-place write @ %lld, %lld bytes\n", (long long) offset, (long long) n);
        }
    }

    // head tables: remember the previous entries of the tables that are touched
    uint32_t head_chunk = UINT32_MAX;
    uint8_t head_old[128];
    for (int64_t p = offset; p < overlap_end; ++p) {
        uint8_t v = buf[p - offset];
        uint8_t cls = c14_cls[p];
        if ((cls == C14_HEADTAB) && (head_chunk == UINT32_MAX)) {
            head_chunk = c14_own[p];
            memcpy(head_old, c14_img + c14_chunks[head_chunk] + 32, sizeof(head_old));
        }
        if (v == c14_img[p]) {
            continue;
        }
        switch (cls) {
            case C14_FILEHDR:
                if (!c14_closing) {
                    c14_fail("file header modified before close", p);
                }
                break;
            case C14_HDR: {
                int64_t k = p - c14_chunks[c14_own[p]];
                if ((k >= 16) && (k < 28)) {
                    c14_fail("chunk header: tag / meta / payload length modified", p);
                }
                break;
            }
            case C14_PAYLOAD:
                c14_fail("chunk payload modified after it was written", p);
                break;
            case C14_HEADTAB:
                break;  // checked per entry below
            default:
                c14_fail("rewrite of bytes that belong to an incomplete chunk", p);
                break;
        }
    }
    memcpy(c14_img + offset, buf, (size_t) n);
    if ((offset + n) > c14_size) {
        if (0 == c14_size) {
            for (int64_t k = 0; (k < 32) && (k < (offset + n)); ++k) {
                c14_cls[k] = C14_FILEHDR;
            }
        }
        c14_size = offset + n;
    }
    if (head_chunk != UINT32_MAX) {
        const uint8_t * head_new = c14_img + c14_chunks[head_chunk] + 32;
        for (int e = 0; e < 16; ++e) {
            uint64_t a = c14_u64(head_old + 8 * e);
            uint64_t b = c14_u64(head_new + 8 * e);
            if (a == b) {
                continue;
            }
            if (a != 0) {
                c14_fail("head table entry changed from a nonzero value", c14_chunks[head_chunk] + 32 + 8 * e);
            } else if (!c14_is_chunk((int64_t) b)) {
                c14_fail("head table entry set to something that is not an existing chunk", c14_chunks[head_chunk] + 32 + 8 * e);
            }
        }
    }
    c14_parse();
    pthread_mutex_unlock(&c14_mutex);
}

static int c14_is_target(int fd) {
    struct stat a;
    struct stat b;
    if (!c14_path || (fd <= 2)) {
        return 0;
    }
    if (fstat(fd, &a) || stat(c14_path, &b)) {
        return 0;
    }
    return (a.st_ino == b.st_ino) && (a.st_dev == b.st_dev);
}

ssize_t write(int fd, const void * buf, size_t count) {
    if (c14_is_target(fd)) {
        if (c14_fail_countdown && (0 == --c14_fail_countdown)) {
            errno = ENOSPC;   // injected failure: nothing is written
            return -1;
        }
        int64_t offset = (int64_t) syscall(SYS_lseek, fd, (off_t) 0, SEEK_CUR);
        ssize_t rv = (ssize_t) syscall(SYS_write, fd, buf, count);
        if (rv > 0) {
            c14_on_write(offset, (const uint8_t *) buf, (int64_t) rv);
        }
        return rv;
    }
    return (ssize_t) syscall(SYS_write, fd, buf, count);
}

int ftruncate(int fd, off_t length) {
    if (c14_is_target(fd)) {
        pthread_mutex_lock(&c14_mutex);
        if ((int64_t) length < c14_size) {
            c14_fail("file truncated", (int64_t) length);
            c14_size = (int64_t) length;
            if (c14_parse_pos > c14_size) {
                c14_parse_pos = c14_size;
            }
        }
        pthread_mutex_unlock(&c14_mutex);
    }
    return (int) syscall(SYS_ftruncate, fd, length);
}

// the shadow image must equal the file: the trace is complete
static int c14_verify_image(void) {
    FILE * f = fopen(c14_path, "rb");
    if (!f) {
        fprintf(stderr, "c14: cannot open %s\n", c14_path);
        return 1;
    }
    int rc = 0;
    fseek(f, 0, SEEK_END);
    long sz = ftell(f);
    fseek(f, 0, SEEK_SET);
    if ((int64_t) sz != c14_size) {
        fprintf(stderr, "c14: trace size %lld != file size %ld\n", (long long) c14_size, sz);
        rc = 1;
    } else {
        uint8_t * b = malloc((size_t) sz + 1);
        if (fread(b, 1, (size_t) sz, f) != (size_t) sz) {
            rc = 1;
        } else if (memcmp(b, c14_img, (size_t) sz)) {
            fprintf(stderr, "c14: trace image differs from file\n");
            rc = 1;
        }
        free(b);
    }
    fclose(f);
    return rc;
}

static void c14_reset(const char * path) {
    pthread_mutex_lock(&c14_mutex);
    c14_path = path;
    c14_closing = 0;
    c14_size = 0;
    c14_parse_pos = 32;
    c14_chunk_count = 0;
    if (c14_cap) {
        memset(c14_img, 0, (size_t) c14_cap);
        memset(c14_cls, 0, (size_t) c14_cap);
    }
    pthread_mutex_unlock(&c14_mutex);
}

#endif  /* C14_TRACE_H_ */
