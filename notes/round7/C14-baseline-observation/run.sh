#!/bin/sh
# Build the library objects of the tree this is run from and the demo, then run it.
# Usage (from the worktree root): sh seed_out/<name>/run.sh
set -e
ROOT=$(pwd)
HERE=$(cd "$(dirname "$0")" && pwd)
TMP=$(mktemp -d /tmp/c14demo.XXXXXX)
trap 'rm -rf "$TMP"' EXIT
CFLAGS="-std=gnu11 -O1 -g -Wall -Wextra -I$ROOT/include -I$ROOT/include_prv -DJLS_OPTIMIZE_CRC_DISABLE=1"
OBJS=""
for f in bit_shift buffer datatype copy core crc32c ec log msg_ring_buffer raw tmap reader statistics \
         threaded_writer track wr_fsr wr_ts writer backend_posix; do
    cc $CFLAGS -Werror -D__FILENAME__="\"$f.c\"" -c "$ROOT/src/$f.c" -o "$TMP/$f.o"
    OBJS="$OBJS $TMP/$f.o"
done
cc $CFLAGS -I"$HERE" "$HERE/demo.c" $OBJS -o "$TMP/demo" -lm -lpthread
set +e
timeout 120 "$TMP/demo" "$TMP/demo.jls"
RC=$?
echo "demo exit code: $RC"
exit $RC
