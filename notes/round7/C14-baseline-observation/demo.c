/*
 * Observation on the UNMODIFIED tree: after one failed backend write the
 * writer rewrites the failed chunk's header in place with another tag and
 * payload length (and closes over it).
 *
 * jls_raw_wr() leaves raw->offset at the start of the chunk whose payload
 * write failed; the next jls_raw_wr_header() seeks back to raw->offset.
 * Exit 0 = property holds, 1 = violated.
 */
#include "c14_trace.h"
#include "jls/writer.h"
#include "jls/format.h"

#define REQ(x) do { int32_t rc__ = (x); if (rc__) { \
    fprintf(stderr, "line %d: %s returned %d\n", __LINE__, #x, (int) rc__); exit(2); } } while (0)

static uint8_t blob[1000];

int main(int argc, char ** argv) {
    const char * path = (argc > 1) ? argv[1] : "/tmp/c14_baseline_demo.jls";
    struct jls_wr_s * wr = NULL;
    memset(blob, 0x5a, sizeof(blob));
    unlink(path);
    c14_reset(path);
    REQ(jls_wr_open(&wr, path));
    REQ(jls_wr_user_data(wr, 1, JLS_STORAGE_TYPE_BINARY, blob, sizeof(blob)));
    c14_fail_countdown = 2;  // header write succeeds, payload write fails
    int32_t rc = jls_wr_user_data(wr, 2, JLS_STORAGE_TYPE_BINARY, blob, sizeof(blob));
    printf("user_data with injected ENOSPC returned %d\n", (int) rc);
    // the application carries on (space was freed) with a different chunk
    REQ(jls_wr_user_data(wr, 3, JLS_STORAGE_TYPE_STRING, (const uint8_t *) "short", 0));
    c14_closing = 1;
    REQ(jls_wr_close(wr));
    int bad = c14_verify_image();
    printf("in-place writes=%d violations=%d image=%s\n", c14_inplace_writes, c14_violations, bad ? "MISMATCH" : "ok");
    unlink(path);
    return (bad || c14_violations) ? 1 : 0;
}
