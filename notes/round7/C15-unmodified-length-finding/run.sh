#!/bin/sh
# Build the library objects of the tree this is run from plus demo.c into a
# temporary directory, run the demo; exit code = demo result.
set -e
HERE=$(cd "$(dirname "$0")" && pwd)
ROOT=$(pwd)
TMP=$(mktemp -d /tmp/c15demo.XXXXXX)
trap 'rm -rf "$TMP"' EXIT
CFLAGS="-std=gnu99 -O1 -g -DJLS_OPTIMIZE_CRC_DISABLE=1 -I$ROOT/include -I$ROOT/include_prv"
for f in bit_shift buffer datatype copy core crc32c ec log msg_ring_buffer raw tmap reader \
         statistics threaded_writer track wr_fsr wr_ts writer backend_posix; do
    cc $CFLAGS -c "$ROOT/src/$f.c" -o "$TMP/$f.o"
done
cc $CFLAGS "$HERE/demo.c" "$TMP"/*.o -o "$TMP/demo" -lm -lpthread
cd "$TMP"
set +e
timeout 120 ./demo
rc=$?
exit $rc
