/*
 * Finding on the UNMODIFIED tree: the reported length depends on whether the
 * last (partial) block was omitted.  Same stream, omission off vs on; and a
 * u8 stream whose last partial block is constant vs not constant.
 */
#include "jls/writer.h"
#include "jls/reader.h"
#include "jls/format.h"
#include <stdio.h>
#include <stdlib.h>
#include <string.h>
#include <inttypes.h>

#define CHECK(x) do { int32_t rc__ = (x); if (rc__) { \
    printf("FAIL %s:%d: %s -> %d\n", __FILE__, __LINE__, #x, (int) rc__); exit(2); } } while (0)

static const struct jls_source_def_s SRC = {
    .source_id = 1, .name = "s", .vendor = "v", .model = "m", .version = "1", .serial_number = "1",
};

static int64_t f32_len(int omit, uint32_t n) {
    struct jls_signal_def_s def = {
        .signal_id = 1, .source_id = 1, .signal_type = JLS_SIGNAL_TYPE_FSR,
        .data_type = JLS_DATATYPE_F32, .sample_rate = 1000,
        .samples_per_data = 1000, .sample_decimate_factor = 100,
        .entries_per_summary = 200, .summary_decimate_factor = 10,
        .name = "f32", .units = "",
    };
    float * y = malloc(n * sizeof(float));
    for (uint32_t i = 0; i < n; ++i) {
        y[i] = (float) (i % 97);
    }
    struct jls_wr_s * wr = NULL;
    CHECK(jls_wr_open(&wr, "c15_len.jls"));
    CHECK(jls_wr_source_def(wr, &SRC));
    CHECK(jls_wr_signal_def(wr, &def));
    CHECK(jls_wr_fsr_omit_data(wr, 1, omit));
    CHECK(jls_wr_fsr_f32(wr, 1, 0, y, n));
    CHECK(jls_wr_close(wr));
    struct jls_rd_s * rd = NULL;
    CHECK(jls_rd_open(&rd, "c15_len.jls"));
    int64_t len = -1;
    CHECK(jls_rd_fsr_length(rd, 1, &len));
    jls_rd_close(rd);
    remove("c15_len.jls");
    free(y);
    return len;
}

static int64_t u8_len(int last_const, uint32_t n) {
    struct jls_signal_def_s def = {
        .signal_id = 1, .source_id = 1, .signal_type = JLS_SIGNAL_TYPE_FSR,
        .data_type = JLS_DATATYPE_U8, .sample_rate = 1000,
        .samples_per_data = 1024, .sample_decimate_factor = 32,
        .entries_per_summary = 640, .summary_decimate_factor = 20,
        .name = "u8", .units = "",
    };
    uint8_t * y = malloc(n);
    for (uint32_t i = 0; i < n; ++i) {
        y[i] = (uint8_t) i;
    }
    if (last_const) {
        memset(y + (n / 1024) * 1024, 9, n % 1024);
    }
    struct jls_wr_s * wr = NULL;
    CHECK(jls_wr_open(&wr, "c15_len.jls"));
    CHECK(jls_wr_source_def(wr, &SRC));
    CHECK(jls_wr_signal_def(wr, &def));
    CHECK(jls_wr_fsr(wr, 1, 0, y, n));
    CHECK(jls_wr_close(wr));
    struct jls_rd_s * rd = NULL;
    CHECK(jls_rd_open(&rd, "c15_len.jls"));
    int64_t len = -1;
    CHECK(jls_rd_fsr_length(rd, 1, &len));
    jls_rd_close(rd);
    remove("c15_len.jls");
    free(y);
    return len;
}

int main(void) {
    int bad = 0;
    uint32_t n = 5 * 1040 + 333;
    int64_t a = f32_len(0, n);
    int64_t b = f32_len(1, n);
    printf("f32 %u samples written: length omission off=%" PRIi64 ", on=%" PRIi64 "\n", n, a, b);
    bad |= (a != b);
    n = 5 * 1024 + 333;
    a = u8_len(0, n);
    b = u8_len(1, n);
    printf("u8 %u samples written: length last block varying=%" PRIi64 ", constant=%" PRIi64 "\n", n, a, b);
    bad |= (a != b);
    printf("RESULT: %s\n", bad ? "FAIL" : "PASS");
    return bad;
}
