/* Unmodified-library observation: a user-data item written with
 * JLS_STORAGE_TYPE_INVALID is accepted (rc 0) by jls_wr_user_data, but
 * jls_rd_user_data aborts at that item with PARAMETER_INVALID, so every
 * LATER user-data item becomes unreachable. */
#include "jls/writer.h"
#include "jls/reader.h"
#include "jls/ec.h"
#include <stdio.h>
#include <string.h>
static int n = 0;
static int32_t cbk(void * u, uint16_t meta, enum jls_storage_type_e st, uint8_t * d, uint32_t sz) {
    (void) u; (void) d;
    printf("  item tag=%d type=%d size=%u\n", (int) meta, (int) st, (unsigned) sz);
    ++n;
    return 0;
}
int main(void) {
    struct jls_wr_s * wr; struct jls_rd_s * rd;
    const uint8_t b[4] = {1, 2, 3, 4};
    remove("probe.jls");
    if (jls_wr_open(&wr, "probe.jls")) return 2;
    printf("wr item1 rc=%d\n", jls_wr_user_data(wr, 1, JLS_STORAGE_TYPE_BINARY, b, 4));
    int32_t rc_inv = jls_wr_user_data(wr, 2, JLS_STORAGE_TYPE_INVALID, b, 4);
    printf("wr item2 (INVALID storage type) rc=%d\n", rc_inv);
    printf("wr item3 rc=%d\n", jls_wr_user_data(wr, 3, JLS_STORAGE_TYPE_BINARY, b, 4));
    jls_wr_close(wr);
    if (jls_rd_open(&rd, "probe.jls")) return 2;
    int32_t rc = jls_rd_user_data(rd, cbk, NULL);
    printf("jls_rd_user_data rc=%d (%s), items seen=%d\n", rc, jls_error_code_name(rc), n);
    jls_rd_close(rd);
    remove("probe.jls");
    /* accepted items 1 and 3 must both be returned */
    return ((0 == rc_inv) && (n < 2)) || rc ? 1 : 0;
}
