// Pre-existing (unmodified tree): a stored UTC pair whose sample id lies more than
// one hour (3600 * sample_rate samples) before the first FSR sample is silently left
// out of the id<->time map, so id->time does not reproduce that stored pair.
#include "jls/writer.h"
#include "jls/reader.h"
#include "jls/format.h"
#include "jls/time.h"
#include <stdio.h>

static int32_t on_utc(void * user_data, const struct jls_utc_summary_entry_s * utc, uint32_t size) {
    int * count = (int *) user_data;
    for (uint32_t i = 0; i < size; ++i) {
        printf("  rd_utc pair: id=%lld utc=%lld\n", (long long) utc[i].sample_id, (long long) utc[i].timestamp);
        ++*count;
    }
    return 0;
}

int main(int argc, char * argv[]) {
    const char * path = (argc > 1) ? argv[1] : "c12_demo_tmp.jls";
    struct jls_source_def_s source = {.source_id = 1, .name = "s", .vendor = "v", .model = "m", .version = "1", .serial_number = "1"};
    struct jls_signal_def_s signal = {
        .signal_id = 1, .source_id = 1, .signal_type = JLS_SIGNAL_TYPE_FSR, .data_type = JLS_DATATYPE_F32,
        .sample_rate = 10, .samples_per_data = 1000, .sample_decimate_factor = 100,
        .entries_per_summary = 200, .summary_decimate_factor = 100,
        .annotation_decimate_factor = 100, .utc_decimate_factor = 100,
        .name = "sig", .units = "A",
    };
    const int64_t offset = 100000;          // first FSR sample id
    // file sample ids and times; drift: first segment runs at half speed
    const int64_t ids[3] = {10000, 100000, 101000};
    const int64_t utc[3] = {JLS_TIME_YEAR, JLS_TIME_YEAR + 18000 * JLS_TIME_SECOND, JLS_TIME_YEAR + 18100 * JLS_TIME_SECOND};
    float data[2000] = {0};
    struct jls_wr_s * wr = NULL;
    if (jls_wr_open(&wr, path) || jls_wr_source_def(wr, &source) || jls_wr_signal_def(wr, &signal)) { return 2; }
    if (jls_wr_utc(wr, 1, ids[0], utc[0])) { return 2; }
    if (jls_wr_fsr_f32(wr, 1, offset, data, 2000)) { return 2; }
    if (jls_wr_utc(wr, 1, ids[1], utc[1]) || jls_wr_utc(wr, 1, ids[2], utc[2])) { return 2; }
    if (jls_wr_close(wr)) { return 2; }

    struct jls_rd_s * rd = NULL;
    if (jls_rd_open(&rd, path)) { return 2; }
    int count = 0;
    jls_rd_utc(rd, 1, -1000000, on_utc, &count);
    int fail = (count != 3);
    for (int i = 0; i < 3; ++i) {
        int64_t t = 0;
        int32_t rc = jls_rd_sample_id_to_timestamp(rd, 1, ids[i] - offset, &t);
        printf("id %lld -> rc=%d time=%lld stored=%lld %s\n", (long long) (ids[i] - offset), (int) rc,
               (long long) t, (long long) utc[i], (t == utc[i]) ? "ok" : "MISMATCH");
        if (rc || (t != utc[i])) { ++fail; }
    }
    jls_rd_close(rd);
    remove(path);
    printf(fail ? "FAIL\n" : "PASS\n");
    return fail ? 1 : 0;
}
