#!/bin/sh
# Build the library sources of the current tree plus the demo into a temp dir and run it.
set -e
ROOT=$(pwd)
HERE=$(cd "$(dirname "$0")" && pwd)
TMP=$(mktemp -d)
trap 'rm -rf "$TMP"' EXIT
SRCS=""
for f in backend_posix bit_shift buffer copy core crc32c datatype ec log msg_ring_buffer raw reader statistics threaded_writer tmap track wr_fsr wr_ts writer; do
    SRCS="$SRCS $ROOT/src/$f.c"
done
cc -O1 -g -std=gnu11 -DJLS_OPTIMIZE_CRC_DISABLE=1 -I"$ROOT/include" -I"$ROOT/include_prv" -o "$TMP/demo" "$HERE/demo.c" $SRCS -lpthread -lm
cd "$TMP"
set +e
timeout 300 ./demo "$TMP/demo.jls"
rc=$?
exit $rc
