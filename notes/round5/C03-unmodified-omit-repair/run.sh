#!/bin/sh
# Builds the library objects of the tree this is run from (worktree root) and the demo
# into a temporary directory, then runs the demo.  Exit code = demo result.
ROOT=$(pwd)
HERE="$ROOT/seed_out/unmodified-omit-repair"
OUT=$(mktemp -d /tmp/c03-omit-XXXXXX) || exit 90
trap 'rm -rf "$OUT"' EXIT
for f in bit_shift buffer datatype copy core crc32c ec log msg_ring_buffer raw tmap reader statistics threaded_writer track wr_fsr wr_ts writer backend_posix; do
  cc -std=gnu99 -O1 -Wall -Wextra -Wpedantic -Werror -fPIC -DJLS_OPTIMIZE_CRC_DISABLE=1 "-D__FILENAME__=\"$f.c\"" \
     -I"$ROOT/include" -I"$ROOT/include_prv" -c "$ROOT/src/$f.c" -o "$OUT/$f.o" || exit 91
done
cc -std=gnu99 -O1 -I"$ROOT/include" -DSCENARIO_STEPS=60 -DSCENARIO_OMIT=1 "$HERE/demo.c" "$OUT"/*.o -lm -lpthread -o "$OUT/demo" || exit 92
cd "$OUT" || exit 93
# every crash point of the 60-step writer program, with runs of constant u8 data (auto-omitted blocks) in signal 2
./demo > out.txt 2>&1
rc=$?
grep -v '^[EWID] ' out.txt | tail -25
echo "demo exit code: $rc"
exit $rc
