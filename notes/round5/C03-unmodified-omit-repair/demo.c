// Crash-point harness for property C03.
// Records every backend write() of a writer program, then replays every
// crash point (k complete writes + selected byte prefixes of write k+1)
// into a fresh file, reopens it with jls_rd_open and checks the property.
#define _GNU_SOURCE
#include "jls/writer.h"
#include "jls/reader.h"
#include "jls/format.h"
#include "jls/ec.h"
#include "jls/time.h"
#include <math.h>
#include <signal.h>
#include <stdint.h>
#include <stdio.h>
#include <stdlib.h>
#include <string.h>
#include <unistd.h>
#include <fcntl.h>
#include <sys/syscall.h>

#ifndef SCENARIO_OMIT
#define SCENARIO_OMIT 0
#endif
#ifndef SCENARIO
#define SCENARIO 0
#endif

#define NSIGS 4      // signal ids 1..3 used
#define MAXLOG 200000

struct state_s {
    int64_t sub[NSIGS];    // samples submitted (calls completed) per signal
    int32_t n_anno;
    int32_t n_utc;
    int32_t n_ud;
    int defs_done;
};

struct wlog_s {
    int64_t off;
    uint32_t len;
    uint8_t * data;
    struct state_s st;    // state before the API call that issued this write
};

static struct wlog_s g_log[MAXLOG];
static int g_log_n = 0;
static int g_rec = 0;
static struct state_s g_st;         // state at the start of the current API call

ssize_t write(int fd, const void * buf, size_t count) {
    if (g_rec && (fd > 2)) {
        if (g_log_n >= MAXLOG) {
            _exit(99);
        }
        struct wlog_s * w = &g_log[g_log_n++];
        w->off = (int64_t) lseek(fd, 0, SEEK_CUR);
        w->len = (uint32_t) count;
        w->data = malloc(count ? count : 1);
        memcpy(w->data, buf, count);
        w->st = g_st;
    }
    return syscall(SYS_write, fd, buf, count);
}

// ---------------------------------------------------------------- reference data
struct sigref_s {
    struct jls_signal_def_s def;
    uint8_t * bytes;       // submitted samples, packed
    int64_t count;
    int64_t cap;
    uint32_t spd;          // aligned samples_per_data (from the closed file)
};
static struct sigref_s g_sig[NSIGS];

struct anno_s { uint16_t sig; int64_t ts; uint8_t type; uint8_t group; float y; char txt[32]; };
struct utc_s { uint16_t sig; int64_t sample_id; int64_t utc; };
struct ud_s { uint16_t meta; char txt[32]; };
static struct anno_s g_anno[4096]; static int g_anno_n;
static struct utc_s g_utc[4096]; static int g_utc_n;
static struct ud_s g_ud[4096]; static int g_ud_n;

static const char * PATH_W = "c03_wr.jls";
static const char * PATH_R = "c03_rd.jls";
static int g_fail = 0;
static int g_verbose = 0;

#define REQ(x) do { int32_t rc__ = (x); if (rc__) { printf("writer step failed %d: %s\n", (int) rc__, #x); exit(3); } } while (0)

static double sample_value(const struct sigref_s * s, int64_t i) {
    switch (s->def.data_type) {
        case JLS_DATATYPE_F32: { float f; memcpy(&f, s->bytes + i * 4, 4); return f; }
        case JLS_DATATYPE_U8: return s->bytes[i];
        case JLS_DATATYPE_I16: { int16_t v; memcpy(&v, s->bytes + i * 2, 2); return v; }
        case JLS_DATATYPE_U1: return (s->bytes[i / 8] >> (i & 7)) & 1;
        default: return 0;
    }
}

static uint32_t bits_of(uint32_t dt) { return (dt >> 8) & 0xff; }

static void sig_append(struct jls_wr_s * wr, uint16_t id, const void * data, uint32_t n) {
    struct sigref_s * s = &g_sig[id];
    uint32_t bits = bits_of(s->def.data_type);
    // only byte-aligned appends are used (n * bits % 8 == 0)
    size_t nbytes = ((size_t) n * bits) / 8;
    size_t have = (size_t) ((s->count * bits) / 8);
    if ((int64_t) (have + nbytes) > s->cap) {
        s->cap = (int64_t) (have + nbytes) * 2 + 1024;
        s->bytes = realloc(s->bytes, (size_t) s->cap);
    }
    memcpy(s->bytes + have, data, nbytes);
    REQ(jls_wr_fsr(wr, id, s->count, data, n));
    s->count += n;
    g_st.sub[id] = s->count;
}

static void do_anno(struct jls_wr_s * wr, uint16_t id, int64_t ts) {
    struct anno_s * a = &g_anno[g_anno_n];
    a->sig = id; a->ts = ts; a->type = JLS_ANNOTATION_TYPE_TEXT; a->group = (uint8_t) (g_anno_n & 7);
    a->y = (float) g_anno_n;
    snprintf(a->txt, sizeof(a->txt), "anno-%d-%d", (int) id, g_anno_n);
    REQ(jls_wr_annotation(wr, id, ts, a->y, a->type, a->group, JLS_STORAGE_TYPE_STRING, (const uint8_t *) a->txt, 0));
    ++g_anno_n;
    g_st.n_anno = g_anno_n;
}

static void do_utc(struct jls_wr_s * wr, uint16_t id, int64_t sample_id) {
    struct utc_s * u = &g_utc[g_utc_n];
    u->sig = id; u->sample_id = sample_id; u->utc = JLS_TIME_YEAR + sample_id * 1000 + g_utc_n;
    REQ(jls_wr_utc(wr, id, sample_id, u->utc));
    ++g_utc_n;
    g_st.n_utc = g_utc_n;
}

static void do_ud(struct jls_wr_s * wr) {
    struct ud_s * u = &g_ud[g_ud_n];
    u->meta = (uint16_t) (0x100 + g_ud_n);
    snprintf(u->txt, sizeof(u->txt), "user-data-%d", g_ud_n);
    REQ(jls_wr_user_data(wr, u->meta, JLS_STORAGE_TYPE_STRING, (const uint8_t *) u->txt, 0));
    ++g_ud_n;
    g_st.n_ud = g_ud_n;
}

static const struct jls_source_def_s SRC1 = {
    .source_id = 1, .name = "src", .vendor = "v", .model = "m", .version = "1", .serial_number = "sn",
};

static void def_signal(struct jls_wr_s * wr, uint16_t id, uint32_t dt, uint32_t spd, uint32_t sdf, uint32_t eps, uint32_t sumdf,
                       uint32_t adf, uint32_t udf) {
    struct jls_signal_def_s d = {
        .signal_id = id, .source_id = 1, .signal_type = JLS_SIGNAL_TYPE_FSR, .data_type = dt,
        .sample_rate = 1000, .samples_per_data = spd, .sample_decimate_factor = sdf,
        .entries_per_summary = eps, .summary_decimate_factor = sumdf,
        .annotation_decimate_factor = adf, .utc_decimate_factor = udf,
        .name = "sig", .units = "u",
    };
    g_sig[id].def = d;
    REQ(jls_wr_signal_def(wr, &d));
}

static uint32_t lcg(uint32_t * s) { *s = *s * 1664525u + 1013904223u; return *s >> 8; }

// The writer program.  Scenario selects size / mix.
static void writer_program(void) {
    struct jls_wr_s * wr = NULL;
    uint32_t seed = 12345;
    memset(&g_st, 0, sizeof(g_st));
    g_rec = 1;
    REQ(jls_wr_open(&wr, PATH_W));
    REQ(jls_wr_source_def(wr, &SRC1));
#if SCENARIO == 0
    // three signals of different types, small decimations, annotations / UTC / user data interleaved
    def_signal(wr, 1, JLS_DATATYPE_F32, 32, 16, 20, 10, 4, 3);
    def_signal(wr, 2, JLS_DATATYPE_U8, 64, 32, 20, 10, 2, 2);
    def_signal(wr, 3, JLS_DATATYPE_I16, 0, 0, 0, 0, 0, 0);     // defaults
    g_st.defs_done = 1;
    float f[64]; uint8_t u8[96]; int16_t i16[4096];
    int total = SCENARIO_STEPS;
    for (int step = 0; step < total; ++step) {
        uint32_t n1 = 8 + (lcg(&seed) % 24);
        for (uint32_t i = 0; i < n1; ++i) { f[i] = (float) ((int) (lcg(&seed) % 2001) - 1000); }
        sig_append(wr, 1, f, n1);
        uint32_t n2 = 16 + (lcg(&seed) % 48);
        int constant = SCENARIO_OMIT && (((step / 7) % 3) == 1);  // runs of constant data => omitted blocks
        for (uint32_t i = 0; i < n2; ++i) { u8[i] = constant ? 7 : (uint8_t) lcg(&seed); }
        sig_append(wr, 2, u8, n2);
        if ((step % 3) == 0) {
            for (uint32_t i = 0; i < 3000; ++i) { i16[i] = (int16_t) (lcg(&seed) % 20000) - 10000; }
            sig_append(wr, 3, i16, 3000);
        }
        if ((step % 2) == 0) { do_anno(wr, 1, g_sig[1].count - 1); }
        if ((step % 5) == 1) { do_anno(wr, 2, g_sig[2].count - 1); }
        if ((step % 3) == 1) { do_utc(wr, 1, g_sig[1].count - 1); }
        if ((step % 4) == 2) { do_utc(wr, 2, g_sig[2].count - 1); }
        if ((step % 11) == 5) { do_ud(wr); }
    }
#endif
    REQ(jls_wr_close(wr));
    g_rec = 0;
}

// ---------------------------------------------------------------- checks
#define FAILF(...) do { printf("FAIL crash(k=%d, partial=%u): ", g_k, g_partial); printf(__VA_ARGS__); printf("\n"); g_fail = 1; return; } while (0)
static int g_k; static uint32_t g_partial;

struct acol_s { int n; int next; int bad; uint16_t sig; };

static int32_t anno_cbk(void * user_data, const struct jls_annotation_s * a) {
    struct acol_s * c = (struct acol_s *) user_data;
    ++c->n;
    for (int i = c->next; i < g_anno_n; ++i) {
        const struct anno_s * w = &g_anno[i];
        if ((w->sig == c->sig) && (w->ts == a->timestamp) && (w->type == a->annotation_type)
                && (w->group == a->group_id) && (w->y == a->y)
                && (a->storage_type == JLS_STORAGE_TYPE_STRING)
                && (a->data_size == strlen(w->txt) + 1) && (0 == memcmp(a->data, w->txt, a->data_size))) {
            c->next = i + 1;
            return 0;
        }
    }
    c->bad = 1;
    return 1;
}

static int32_t utc_cbk(void * user_data, const struct jls_utc_summary_entry_s * utc, uint32_t size) {
    struct acol_s * c = (struct acol_s *) user_data;
    for (uint32_t k = 0; k < size; ++k) {
        ++c->n;
        int found = 0;
        for (int i = c->next; i < g_utc_n; ++i) {
            const struct utc_s * w = &g_utc[i];
            if ((w->sig == c->sig) && (w->sample_id == utc[k].sample_id) && (w->utc == utc[k].timestamp)) {
                c->next = i + 1;
                found = 1;
                break;
            }
        }
        if (!found) {
            c->bad = 1;
            return 1;
        }
    }
    return 0;
}

static int32_t ud_cbk(void * user_data, uint16_t chunk_meta, enum jls_storage_type_e storage_type,
                      uint8_t * data, uint32_t data_size) {
    struct acol_s * c = (struct acol_s *) user_data;
    ++c->n;
    for (int i = c->next; i < g_ud_n; ++i) {
        const struct ud_s * w = &g_ud[i];
        if ((w->meta == chunk_meta) && (storage_type == JLS_STORAGE_TYPE_STRING)
                && (data_size == strlen(w->txt) + 1) && (0 == memcmp(data, w->txt, data_size))) {
            c->next = i + 1;
            return 0;
        }
    }
    c->bad = 1;
    return 1;
}

static void ref_stats(const struct sigref_s * s, int64_t start, int64_t n, double * mean, double * mn, double * mx, double * sd) {
    double sum = 0, lo = 1e300, hi = -1e300;
    for (int64_t i = 0; i < n; ++i) {
        double v = sample_value(s, start + i);
        sum += v; if (v < lo) lo = v; if (v > hi) hi = v;
    }
    double m = sum / (double) n, var = 0;
    for (int64_t i = 0; i < n; ++i) { double d = sample_value(s, start + i) - m; var += d * d; }
    *mean = m; *mn = lo; *mx = hi; *sd = (n > 1) ? sqrt(var / (double) (n - 1)) : 0.0;
}

static void check_reader(struct jls_rd_s * rd, const struct state_s * st, int boundary) {
    struct jls_signal_def_s * defs = NULL; uint16_t count = 0;
    if (jls_rd_signals(rd, &defs, &count)) { FAILF("jls_rd_signals failed"); }
    int present[NSIGS] = {0};
    for (uint16_t i = 0; i < count; ++i) {
        if (defs[i].signal_id == 0) continue;
        if (defs[i].signal_id >= NSIGS) { FAILF("unknown signal %d", (int) defs[i].signal_id); }
        const struct sigref_s * s = &g_sig[defs[i].signal_id];
        if ((defs[i].data_type != s->def.data_type) || (defs[i].signal_type != JLS_SIGNAL_TYPE_FSR)) {
            FAILF("signal %d definition altered", (int) defs[i].signal_id);
        }
        present[defs[i].signal_id] = 1;
    }
    for (uint16_t id = 1; id < NSIGS; ++id) {
        const struct sigref_s * s = &g_sig[id];
        if (!s->def.signal_id) continue;
        if (!present[id]) {
            if (boundary && st->defs_done) { FAILF("signal %d lost although its definition was on disk", (int) id); }
            continue;
        }
        int64_t len = -1;
        int32_t rc = jls_rd_fsr_length(rd, id, &len);
        if (rc) {
            if (boundary && st->defs_done) { FAILF("signal %d length error %d", (int) id, (int) rc); }
            continue;
        }
        if ((len < 0) || (len > s->count)) { FAILF("signal %d length %lld > submitted %lld", (int) id, (long long) len, (long long) s->count); }
        if (boundary && st->defs_done && (id != 2)) {  // signal 2 has omitted blocks, which live only in the writer's summary buffer
            int64_t spd = s->spd;
            int64_t lower = (st->sub[id] / spd) * spd - spd;
            if (len < lower) {
                FAILF("signal %d length %lld < %lld: lost more than buffered + one block (submitted before call %lld, spd %lld)",
                      (int) id, (long long) len, (long long) lower, (long long) st->sub[id], (long long) spd);
            }
        }
        if (len == 0) continue;
        uint32_t bits = bits_of(s->def.data_type);
        size_t nbytes = (size_t) ((len * bits + 7) / 8);
        uint8_t * got = calloc(1, nbytes + 16);
        rc = jls_rd_fsr(rd, id, 0, got, len);
        if (rc) {
            free(got);
            if (boundary) { FAILF("signal %d jls_rd_fsr(0, %lld) -> %d", (int) id, (long long) len, (int) rc); }
            continue;  // a stop in the middle of a write may leave an unreadable (never a wrong) signal
        }
        size_t whole = (size_t) ((len * bits) / 8);
        if (memcmp(got, s->bytes, whole)) {
            size_t b = 0; while (got[b] == s->bytes[b]) ++b;
            free(got);
            FAILF("signal %d samples differ from the submitted prefix near sample %lld (len %lld)", (int) id, (long long) ((b * 8) / bits), (long long) len);
        }
        free(got);
        // statistics: one bucket over everything, then a few increments
        int64_t sdf = (int64_t) s->def.sample_decimate_factor;
        int64_t incrs[3] = {len, sdf * 10, sdf * 3};
        for (int q = 0; q < 3; ++q) {
            int64_t incr = incrs[q];
            if (q && (incr == 0)) continue;
            if ((incr <= 0) || (incr > len)) continue;
            int64_t n = len / incr;
            if (n > 64) n = 64;
            int64_t start = (q == 2) ? (((len - n * incr) / sdf) * sdf) : 0;
            double * d = calloc((size_t) n * 4, sizeof(double));
            rc = jls_rd_fsr_statistics(rd, id, start, incr, d, n);
            if (rc) {  // an error exposes nothing; only values that disagree count
                if (g_verbose) { printf("  note crash(k=%d, partial=%u): signal %d statistics(start=%lld incr=%lld n=%lld) -> %d\n", g_k, g_partial, (int) id, (long long) start, (long long) incr, (long long) n, (int) rc); }
                free(d);
                continue;
            }
            for (int64_t j = 0; j < n; ++j) {
                double m, lo, hi, sd;
                ref_stats(s, start + j * incr, incr, &m, &lo, &hi, &sd);
                double scale = fabs(hi - lo) + fabs(m) + 1.0;
                if ((fabs(d[j * 4 + JLS_SUMMARY_FSR_MEAN] - m) > 2e-4 * scale)
                        || (d[j * 4 + JLS_SUMMARY_FSR_MIN] != lo) || (d[j * 4 + JLS_SUMMARY_FSR_MAX] != hi)
                        || (fabs(d[j * 4 + JLS_SUMMARY_FSR_STD] - sd) > 2e-2 * scale)) {
                    printf("  got mean=%g min=%g max=%g std=%g expect mean=%g min=%g max=%g std=%g\n",
                           d[j * 4 + 0], d[j * 4 + 2], d[j * 4 + 3], d[j * 4 + 1], m, lo, hi, sd);
                    free(d);
                    FAILF("signal %d statistics(start=%lld incr=%lld) entry %lld disagree with the submitted prefix (len %lld)",
                          (int) id, (long long) start, (long long) incr, (long long) j, (long long) len);
                }
            }
            free(d);
        }
        struct acol_s c = {.sig = id};
        rc = jls_rd_annotations(rd, id, 0, anno_cbk, &c);
        if (c.bad) { FAILF("signal %d annotation #%d returned is not a written one in order", (int) id, c.n); }
        struct acol_s cu = {.sig = id};
        rc = jls_rd_utc(rd, id, 0, utc_cbk, &cu);
        if (cu.bad) { FAILF("signal %d utc entry #%d returned is not a written one in order", (int) id, cu.n); }
    }
    struct acol_s c = {.sig = 0};
    jls_rd_user_data(rd, ud_cbk, &c);
    if (c.bad) { FAILF("user data #%d returned is not a written one in order", c.n); }
}

static void on_alarm(int sig) {
    (void) sig;
    static const char msg[] = "FAIL: timeout (open or read did not terminate)\n";
    syscall(SYS_write, 1, msg, sizeof(msg) - 1);
    _exit(4);
}

static uint8_t * g_img = NULL; static int64_t g_img_len = 0, g_img_cap = 0;

static void img_apply(uint8_t ** img, int64_t * len, int64_t * cap, const struct wlog_s * w, uint32_t n) {
    if (0 == n) return;
    int64_t end = w->off + n;
    if (end > *cap) {
        int64_t ncap = end * 2 + 4096;
        *img = realloc(*img, (size_t) ncap);
        memset(*img + *cap, 0, (size_t) (ncap - *cap));
        *cap = ncap;
    }
    if (w->off > *len) { memset(*img + *len, 0, (size_t) (w->off - *len)); }
    memcpy(*img + w->off, w->data, n);
    if (end > *len) *len = end;
}

static void run_point(int k, uint32_t partial, const struct state_s * st) {
    // g_img holds writes [0, k) ; add partial bytes of write k into a copy
    g_k = k; g_partial = partial;
    int fd = open(PATH_R, O_RDWR | O_CREAT | O_TRUNC, 0644);
    if (fd < 0) { perror("open"); exit(5); }
    if (partial) {
        const struct wlog_s * w = &g_log[k];
        int64_t end = w->off + partial;
        int64_t len = (end > g_img_len) ? end : g_img_len;
        uint8_t * tmp = calloc(1, (size_t) len + 1);
        memcpy(tmp, g_img, (size_t) g_img_len);
        memcpy(tmp + w->off, w->data, partial);
        if (syscall(SYS_write, fd, tmp, (size_t) len) != len) { exit(5); }
        free(tmp);
    } else {
        if (syscall(SYS_write, fd, g_img, (size_t) g_img_len) != g_img_len) { exit(5); }
    }
    close(fd);
    alarm(60);
    struct jls_rd_s * rd = NULL;
    int32_t rc = jls_rd_open(&rd, PATH_R);
    if (rc) {
        if ((0 == partial) && st->defs_done) {
            alarm(0);
            FAILF("open failed with %d although the stop fell between two complete writes and all definitions were on disk", (int) rc);
        }
        alarm(0);
        return;
    }
    check_reader(rd, st, (0 == partial));
    jls_rd_close(rd);
    alarm(0);
}

int main(int argc, char * argv[]) {
    int k_from = 0, k_to = -1, stride = 1;
    for (int i = 1; i < argc; ++i) {
        if (0 == strcmp(argv[i], "-v")) g_verbose = 1;
        else if (0 == strcmp(argv[i], "--from")) k_from = atoi(argv[++i]);
        else if (0 == strcmp(argv[i], "--to")) k_to = atoi(argv[++i]);
        else if (0 == strcmp(argv[i], "--stride")) stride = atoi(argv[++i]);
    }
    signal(SIGALRM, on_alarm);
    writer_program();

    // the aligned definitions, from the cleanly closed file
    {
        struct jls_rd_s * rd = NULL;
        if (jls_rd_open(&rd, PATH_W)) { printf("FAIL: cannot open the cleanly closed file\n"); return 2; }
        for (uint16_t id = 1; id < NSIGS; ++id) {
            struct jls_signal_def_s d;
            if (g_sig[id].def.signal_id && (0 == jls_rd_signal(rd, id, &d))) {
                g_sig[id].spd = d.samples_per_data;
                g_sig[id].def.sample_decimate_factor = d.sample_decimate_factor;
            }
        }
        // sanity: the closed file holds everything
        struct state_s st = g_st;
        g_k = g_log_n; g_partial = 0;
        check_reader(rd, &st, 0);
        for (uint16_t id = 1; id < NSIGS; ++id) {
            int64_t len = 0;
            if (g_sig[id].def.signal_id && ((jls_rd_fsr_length(rd, id, &len)) || (len != g_sig[id].count))) {
                printf("FAIL: closed file signal %d length %lld != %lld\n", (int) id, (long long) len, (long long) g_sig[id].count);
                g_fail = 1;
            }
        }
        jls_rd_close(rd);
        if (g_fail) return 1;
    }
    printf("recorded %d writes; samples: %lld %lld %lld; anno %d utc %d ud %d\n", g_log_n,
           (long long) g_sig[1].count, (long long) g_sig[2].count, (long long) g_sig[3].count, g_anno_n, g_utc_n, g_ud_n);
    if (k_to < 0 || k_to > g_log_n) k_to = g_log_n;

    int points = 0, fails = 0;
    if (g_verbose) {
        for (int k = (k_from > 3 ? k_from - 3 : 0); (k <= k_to + 3) && (k < g_log_n); ++k) {
            const struct wlog_s * w = &g_log[k];
            printf("  write %d: off=%lld len=%u", k, (long long) w->off, w->len);
            if (w->len == 32) { printf(" hdr tag=0x%02x meta=0x%04x plen=%u next=%lld", w->data[16], w->data[18] | (w->data[19] << 8), w->data[20] | (w->data[21] << 8) | (w->data[22] << 16), (long long) *(int64_t *) w->data); }
            printf("\n");
        }
    }
    for (int k = 0; k <= k_to; ++k) {
        if ((k >= k_from) && (((k - k_from) % stride) == 0)) {
            const struct state_s * st = (k < g_log_n) ? &g_log[k].st : &g_st;
            g_fail = 0;
            run_point(k, 0, st); ++points;
            if (g_fail) { ++fails; }
            if (k < g_log_n) {
                uint32_t len = g_log[k].len;
                uint32_t cand[8] = {1, 7, 8, 16, 24, 31, len / 2, len - 1};
                uint32_t prev = 0;
                for (int c = 0; c < 8; ++c) {
                    uint32_t p = cand[c];
                    if ((p == 0) || (p >= len) || (p <= prev)) continue;
                    prev = p;
                    g_fail = 0;
                    run_point(k, p, st); ++points;
                    if (g_fail) { ++fails; }
                }
            }
            if (fails > 20) break;
        }
        if (k < g_log_n) {
            img_apply(&g_img, &g_img_len, &g_img_cap, &g_log[k], g_log[k].len);
        }
    }
    printf("%d crash points checked, %d failed\n", points, fails);
    remove(PATH_R);
    remove(PATH_W);
    return fails ? 1 : 0;
}
