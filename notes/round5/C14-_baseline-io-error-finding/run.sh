#!/bin/sh
# Build the library objects of the tree this is run from, plus demo.c, in a
# temporary directory; run the demo.  Exit code = demo result (0 = property holds).
set -e
HERE=$(cd "$(dirname "$0")" && pwd)
ROOT=$(pwd)
TMP=$(mktemp -d)
trap 'rm -rf "$TMP"' EXIT
CFLAGS="-std=gnu99 -O1 -U_FORTIFY_SOURCE -DJLS_OPTIMIZE_CRC_DISABLE -I$ROOT/include -I$ROOT/include_prv"
for f in bit_shift buffer datatype copy core crc32c ec log msg_ring_buffer raw tmap reader \
         statistics threaded_writer track wr_fsr wr_ts writer backend_posix; do
    cc $CFLAGS -c "$ROOT/src/$f.c" -o "$TMP/$f.o"
done
cc $CFLAGS -Wall -Wextra "$HERE/demo.c" "$TMP"/*.o -o "$TMP/demo" -lm -lpthread
cd "$TMP"
set +e
timeout 120 ./demo
rc=$?
echo "demo exit code: $rc"
exit $rc
