/*
 * C14 write-once checker.
 *
 * Interposes the libc calls that the POSIX backend uses (write, ftruncate,
 * pwrite) for the one file under test, keeps a shadow image of the file and
 * classifies every byte that an in-place write CHANGES:
 *
 *   - chunk header bytes 0..15 (item_next, item_prev) and 28..31 (crc32): ok
 *   - chunk header bytes 16..27 (tag, rsv, chunk_meta, payload_length,
 *     payload_prev_length): VIOLATION
 *   - payload of a track HEAD chunk: an 8-byte entry may change once from
 *     zero to the offset of a chunk that exists completely; the payload
 *     CRC may change; anything else: VIOLATION
 *   - payload (data, pad, crc) of any other chunk: VIOLATION
 *   - file header (offset 0..31): ok only while the writer is being closed
 *   - a write that leaves a hole, ftruncate that shrinks: VIOLATION
 *
 * The chunk table is built from the headers as FIRST written.
 */
#define _GNU_SOURCE
#include <stdint.h>
#include <stdio.h>
#include <stdlib.h>
#include <string.h>
#include <unistd.h>
#include <errno.h>
#include <pthread.h>
#include <sys/stat.h>
#include <sys/syscall.h>
#include <sys/types.h>

#define CK_HDR (32)

struct ck_chunk_s {
    int64_t offset;
    uint32_t payload_length;
    uint8_t tag;
};

static pthread_mutex_t ck_mutex = PTHREAD_RECURSIVE_MUTEX_INITIALIZER_NP;
static const char * ck_path = NULL;
static int ck_fd = -1;
static uint8_t * ck_img = NULL;
static int64_t ck_img_len = 0;
static int64_t ck_img_alloc = 0;
static struct ck_chunk_s * ck_chunks = NULL;
static size_t ck_chunk_count = 0;
static size_t ck_chunk_alloc = 0;
static int64_t ck_walk = CK_HDR;       // offset of the next chunk header to parse
static volatile int ck_closing = 0;    // set by the scenario before it closes the writer
static int ck_violations = 0;
static int ck_inplace_writes = 0;
static int ck_verbose = 1;
static volatile int ck_fail_next_inplace = 0;
static int ck_failed = 0;

static uint32_t ck_on_disk(uint32_t payload_length) {
    if (!payload_length) {
        return 0;
    }
    uint32_t pad = (payload_length + 4) & 7;
    if (pad) {
        pad = 8 - pad;
    }
    return payload_length + pad + 4;
}

static void ck_violation(int64_t offset, const char * what) {
    ++ck_violations;
    if (ck_verbose && (ck_violations <= 5)) {
        fprintf(stderr, "C14 VIOLATION at file offset %lld: %s\n", (long long) offset, what);
    }
}

static void ck_begin(const char * path) {
    pthread_mutex_lock(&ck_mutex);
    ck_path = path;
    ck_fd = -1;
    ck_img_len = 0;
    ck_chunk_count = 0;
    ck_walk = CK_HDR;
    ck_closing = 0;
    pthread_mutex_unlock(&ck_mutex);
}

static int ck_is_target(int fd) {
    if (fd < 3 || !ck_path) {
        return 0;
    }
    if (fd == ck_fd) {
        return 1;
    }
    if (ck_fd >= 0) {
        return 0;
    }
    struct stat a;
    struct stat b;
    if (fstat(fd, &a) || stat(ck_path, &b)) {
        return 0;
    }
    if ((a.st_ino == b.st_ino) && (a.st_dev == b.st_dev)) {
        ck_fd = fd;
        return 1;
    }
    return 0;
}

static void ck_walk_chunks(void) {
    while ((ck_walk + CK_HDR) <= ck_img_len) {
        const uint8_t * h = ck_img + ck_walk;
        uint32_t payload_length;
        memcpy(&payload_length, h + 20, 4);
        if (ck_chunk_count >= ck_chunk_alloc) {
            ck_chunk_alloc = ck_chunk_alloc ? (ck_chunk_alloc * 2) : 1024;
            ck_chunks = realloc(ck_chunks, ck_chunk_alloc * sizeof(*ck_chunks));
        }
        ck_chunks[ck_chunk_count].offset = ck_walk;
        ck_chunks[ck_chunk_count].payload_length = payload_length;
        ck_chunks[ck_chunk_count].tag = h[16];
        ++ck_chunk_count;
        ck_walk += CK_HDR + ck_on_disk(payload_length);
    }
}

static struct ck_chunk_s * ck_chunk_find(int64_t x) {  // chunk that contains file offset x
    size_t lo = 0;
    size_t hi = ck_chunk_count;
    while (lo < hi) {
        size_t mid = (lo + hi) / 2;
        if (ck_chunks[mid].offset <= x) {
            lo = mid + 1;
        } else {
            hi = mid;
        }
    }
    if (!lo) {
        return NULL;
    }
    struct ck_chunk_s * c = &ck_chunks[lo - 1];
    if (x >= (c->offset + CK_HDR + (int64_t) ck_on_disk(c->payload_length))) {
        return NULL;
    }
    return c;
}

static int ck_chunk_exists(int64_t offset) {
    struct ck_chunk_s * c = ck_chunk_find(offset);
    if (!c || (c->offset != offset)) {
        return 0;
    }
    return (c->offset + CK_HDR + (int64_t) ck_on_disk(c->payload_length)) <= ck_img_len;
}

static void ck_head_entry(struct ck_chunk_s * c, int64_t entry_offset, const uint8_t * data_new) {
    int64_t v_old;
    int64_t v_new;
    char msg[160];
    memcpy(&v_old, ck_img + entry_offset, 8);
    memcpy(&v_new, data_new, 8);
    if (v_old == v_new) {
        return;
    }
    if (v_old != 0) {
        snprintf(msg, sizeof(msg), "head table (chunk %lld) entry changed from nonzero %lld to %lld",
                 (long long) c->offset, (long long) v_old, (long long) v_new);
        ck_violation(entry_offset, msg);
    } else if (!ck_chunk_exists(v_new)) {
        snprintf(msg, sizeof(msg), "head table (chunk %lld) entry set to %lld which is not an existing chunk",
                 (long long) c->offset, (long long) v_new);
        ck_violation(entry_offset, msg);
    }
}

// classify an in-place write of n bytes at offset off (all inside the image)
static void ck_overwrite(int64_t off, const uint8_t * buf, int64_t n) {
    char msg[160];
    int64_t i = 0;
    ++ck_inplace_writes;
    while (i < n) {
        int64_t x = off + i;
        if (buf[i] == ck_img[x]) {
            ++i;
            continue;
        }
        if (x < CK_HDR) {
            if (!ck_closing) {
                ck_violation(x, "file header modified before close");
                i = CK_HDR - off;  // report once
                continue;
            }
            ++i;
            continue;
        }
        struct ck_chunk_s * c = ck_chunk_find(x);
        if (!c) {
            ck_violation(x, "byte outside of any known chunk modified");
            ++i;
            continue;
        }
        int64_t rel = x - c->offset;
        if (rel < 16 || ((rel >= 28) && (rel < 32))) {
            ++i;  // link fields, header crc
            continue;
        }
        if (rel < 28) {
            snprintf(msg, sizeof(msg), "header of chunk %lld (tag 0x%02x): byte %d (tag/meta/lengths) modified 0x%02x -> 0x%02x",
                     (long long) c->offset, c->tag, (int) rel, ck_img[x], buf[i]);
            ck_violation(x, msg);
            i += 28 - rel;  // report once per header
            continue;
        }
        int64_t prel = rel - CK_HDR;
        int is_head = ((c->tag & 0xe0) == 0x20) && ((c->tag & 7) == 1);
        if (is_head && (prel < (int64_t) c->payload_length)) {
            int64_t e = prel & ~7LL;
            int64_t e_abs = c->offset + CK_HDR + e;
            if (((e + 8) <= (int64_t) c->payload_length) && (e_abs >= off) && ((e_abs + 8) <= (off + n))) {
                ck_head_entry(c, e_abs, buf + (e_abs - off));
            } else {
                ck_violation(x, "head table entry partially modified");
            }
            i = (e_abs + 8) - off;
            continue;
        }
        if (is_head && (prel >= (int64_t) (ck_on_disk(c->payload_length) - 4))) {
            ++i;  // payload crc of a head table
            continue;
        }
        snprintf(msg, sizeof(msg), "payload of chunk %lld (tag 0x%02x, length %u) modified at payload byte %lld",
                 (long long) c->offset, c->tag, c->payload_length, (long long) prel);
        ck_violation(x, msg);
        i = (c->offset + CK_HDR + (int64_t) ck_on_disk(c->payload_length)) - off;  // report once per chunk
    }
}

static void ck_record(int64_t off, const uint8_t * buf, int64_t n) {
    if (n <= 0) {
        return;
    }
    if (off > ck_img_len) {
        ck_violation(off, "write beyond the end of the file leaves a hole");
    }
    int64_t end = off + n;
    if (end > ck_img_alloc) {
        int64_t a = ck_img_alloc ? ck_img_alloc : (1 << 20);
        while (a < end) {
            a *= 2;
        }
        ck_img = realloc(ck_img, (size_t) a);
        memset(ck_img + ck_img_alloc, 0, (size_t) (a - ck_img_alloc));
        ck_img_alloc = a;
    }
    if (off < ck_img_len) {
        int64_t k = ((end < ck_img_len) ? end : ck_img_len) - off;
        ck_overwrite(off, buf, k);
    }
    memcpy(ck_img + off, buf, (size_t) n);
    if (end > ck_img_len) {
        ck_img_len = end;
    }
    ck_walk_chunks();
}

static void ck_write_hook(int fd, const void * buf, size_t count);  // scenario specific, called before the write

ssize_t write(int fd, const void * buf, size_t count) {
    ck_write_hook(fd, buf, count);
    pthread_mutex_lock(&ck_mutex);
    int target = ck_is_target(fd);
    int64_t off = target ? (int64_t) syscall(SYS_lseek, fd, (off_t) 0, SEEK_CUR) : 0;
    if (target && ck_fail_next_inplace && (off < ck_img_len) && (off >= CK_HDR) && (count == 32)) {
        ck_fail_next_inplace = 0;
        ++ck_failed;
        pthread_mutex_unlock(&ck_mutex);
        errno = EIO;
        return -1;
    }
    ssize_t rv = (ssize_t) syscall(SYS_write, fd, buf, count);
    if (target && (rv > 0)) {
        ck_record(off, (const uint8_t *) buf, rv);
    }
    pthread_mutex_unlock(&ck_mutex);
    return rv;
}

ssize_t pwrite(int fd, const void * buf, size_t count, off_t offset) {
    pthread_mutex_lock(&ck_mutex);
    int target = ck_is_target(fd);
    ssize_t rv = (ssize_t) syscall(SYS_pwrite64, fd, buf, count, offset);
    if (target && (rv > 0)) {
        ck_record((int64_t) offset, (const uint8_t *) buf, rv);
    }
    pthread_mutex_unlock(&ck_mutex);
    return rv;
}

int ftruncate(int fd, off_t length) {
    pthread_mutex_lock(&ck_mutex);
    if (ck_is_target(fd) && ((int64_t) length < ck_img_len)) {
        ck_violation((int64_t) length, "ftruncate shrinks the file");
        ck_img_len = (int64_t) length;
    }
    int rv = (int) syscall(SYS_ftruncate, fd, length);
    pthread_mutex_unlock(&ck_mutex);
    return rv;
}

// Compare the shadow image with the file: the interposition saw every write.
static int ck_verify_image(const char * path) {
    FILE * f = fopen(path, "rb");
    if (!f) {
        return 1;
    }
    int rc = 0;
    int64_t pos = 0;
    uint8_t b[65536];
    size_t k;
    while ((k = fread(b, 1, sizeof(b), f)) > 0) {
        if (((pos + (int64_t) k) > ck_img_len) || memcmp(b, ck_img + pos, k)) {
            rc = 1;
            break;
        }
        pos += (int64_t) k;
    }
    fclose(f);
    if (pos != ck_img_len) {
        rc = 1;
    }
    return rc;
}

#define REQ0(x) do { int32_t rc__ = (x); if (rc__) { \
    fprintf(stderr, "HARNESS: %s returned %d at line %d\n", #x, (int) rc__, __LINE__); exit(3); } } while (0)

/* ------------------------------------------------------------------------
 * Scenario: an application passes a missing BINARY user_data payload
 * (data == NULL, data_size > 0), gets the error back, and keeps recording.
 * ---------------------------------------------------------------------- */
#include "jls/writer.h"
#include "jls/format.h"
#include "jls/ec.h"
#include <math.h>

static void ck_write_hook(int fd, const void * buf, size_t count) {
    (void) fd; (void) buf; (void) count;
}

static const struct jls_source_def_s SOURCE_1 = {
    .source_id = 1, .name = "src", .vendor = "v", .model = "m", .version = "1", .serial_number = "sn",
};

static const struct jls_signal_def_s SIGNAL_1 = {
    .signal_id = 1, .source_id = 1, .signal_type = JLS_SIGNAL_TYPE_FSR, .data_type = JLS_DATATYPE_F32,
    .sample_rate = 1000, .samples_per_data = 1000, .sample_decimate_factor = 100,
    .entries_per_summary = 200, .summary_decimate_factor = 10,
    .annotation_decimate_factor = 4, .utc_decimate_factor = 4,
    .name = "sig1", .units = "A",
};

int main(void) {
    const char * path = "c14_demo.jls";
    struct jls_wr_s * wr = NULL;
    static float samples[5000];
    static const uint8_t blob[24] = {1, 2, 3, 4, 5, 6, 7, 8, 9, 10};
    int64_t sample_id = 0;

    for (size_t i = 0; i < sizeof(samples) / sizeof(samples[0]); ++i) {
        samples[i] = sinf((float) i * 0.01f);
    }
    remove(path);
    ck_begin(path);
    REQ0(jls_wr_open(&wr, path));
    REQ0(jls_wr_source_def(wr, &SOURCE_1));
    REQ0(jls_wr_signal_def(wr, &SIGNAL_1));
    REQ0(jls_wr_user_data(wr, 1, JLS_STORAGE_TYPE_BINARY, blob, sizeof(blob)));
    REQ0(jls_wr_user_data(wr, 2, JLS_STORAGE_TYPE_STRING, (const uint8_t *) "hello", 0));
    for (int k = 0; k < 10; ++k) {
        REQ0(jls_wr_fsr_f32(wr, 1, sample_id, samples, 5000));
        sample_id += 5000;
        REQ0(jls_wr_annotation(wr, 1, sample_id, 1.0f, JLS_ANNOTATION_TYPE_TEXT, 0,
                               JLS_STORAGE_TYPE_STRING, (const uint8_t *) "note", 0));
        REQ0(jls_wr_utc(wr, 1, sample_id, 1000000LL * k));
    }

    // the misuse: the error is reported, nothing of it may stay in the file
    ck_fail_next_inplace = 1;   // one transient EIO on a link (chunk header) rewrite
    int32_t rc = jls_wr_utc(wr, 1, sample_id + 1, 5);
    if ((0 == rc) || (1 != ck_failed)) {
        fprintf(stderr, "HARNESS: injected failure not reported (rc=%d, failed=%d)\n", (int) rc, ck_failed);
        return 3;
    }

    // recording goes on
    REQ0(jls_wr_annotation(wr, 1, sample_id, 2.0f, JLS_ANNOTATION_TYPE_TEXT, 0,
                           JLS_STORAGE_TYPE_STRING, (const uint8_t *) "after", 0));
    for (int k = 0; k < 10; ++k) {
        REQ0(jls_wr_fsr_f32(wr, 1, sample_id, samples, 5000));
        sample_id += 5000;
        REQ0(jls_wr_utc(wr, 1, sample_id, 1000000LL * (k + 10)));
    }
    REQ0(jls_wr_user_data(wr, 4, JLS_STORAGE_TYPE_BINARY, blob, sizeof(blob)));
    ck_closing = 1;
    REQ0(jls_wr_close(wr));

    if (ck_verify_image(path)) {
        fprintf(stderr, "HARNESS: shadow image differs from the file\n");
        return 3;
    }
    if (ck_inplace_writes < 10) {
        fprintf(stderr, "HARNESS: only %d in-place writes seen, interposition broken?\n", ck_inplace_writes);
        return 3;
    }
    remove(path);
    printf("in-place writes: %d, chunks: %zu, violations: %d\n", ck_inplace_writes, ck_chunk_count, ck_violations);
    return ck_violations ? 1 : 0;
}
