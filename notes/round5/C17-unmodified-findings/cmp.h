/* Shared helper for the C17 demos: dump everything the reader can see. */
#ifndef C17_CMP_H
#define C17_CMP_H
#include "jls.h"
#include "jls/copy.h"
#include "jls/writer.h"
#include "jls/reader.h"
#include <stdio.h>
#include <stdlib.h>
#include <string.h>
#include <stdint.h>
#include <inttypes.h>
#include <math.h>
#include <unistd.h>

#define CHECK(x) do { int32_t rc__ = (x); if (rc__) { \
    fprintf(stderr, "CHECK failed line %d: %s -> %d\n", __LINE__, #x, (int) rc__); exit(2); } } while (0)

struct dump_s { char * b; size_t n; size_t cap; };

static void dput(struct dump_s * d, const void * p, size_t n) {
    if (d->n + n + 1 > d->cap) {
        d->cap = (d->n + n + 1) * 2;
        d->b = realloc(d->b, d->cap);
        if (!d->b) { exit(3); }
    }
    memcpy(d->b + d->n, p, n);
    d->n += n;
}

static void dprintf_(struct dump_s * d, const char * fmt, ...) __attribute__((format(printf, 2, 3)));
#include <stdarg.h>
static void dprintf_(struct dump_s * d, const char * fmt, ...) {
    char tmp[1024];
    va_list ap;
    va_start(ap, fmt);
    int n = vsnprintf(tmp, sizeof(tmp), fmt, ap);
    va_end(ap);
    dput(d, tmp, (size_t) n);
}

static const char * s_(const char * s) { return s ? s : "(null)"; }

static int32_t on_anno(void * user, const struct jls_annotation_s * a) {
    struct dump_s * d = (struct dump_s *) user;
    uint32_t yb; memcpy(&yb, &a->y, 4);
    dprintf_(d, "  anno t=%" PRIi64 " type=%d st=%d grp=%d y=%08x size=%u data=", a->timestamp,
             a->annotation_type, a->storage_type, a->group_id, yb, a->data_size);
    uint32_t h = 2166136261u;
    for (uint32_t i = 0; i < a->data_size; ++i) { h = (h ^ a->data[i]) * 16777619u; }
    dprintf_(d, "%08x\n", h);
    return 0;
}

static int32_t on_utc(void * user, const struct jls_utc_summary_entry_s * utc, uint32_t size) {
    struct dump_s * d = (struct dump_s *) user;
    for (uint32_t i = 0; i < size; ++i) {
        dprintf_(d, "  utc sample_id=%" PRIi64 " t=%" PRIi64 "\n", utc[i].sample_id, utc[i].timestamp);
    }
    return 0;
}

static int32_t on_user(void * user, uint16_t chunk_meta, enum jls_storage_type_e st, uint8_t * data, uint32_t sz) {
    struct dump_s * d = (struct dump_s *) user;
    uint32_t h = 2166136261u;
    for (uint32_t i = 0; i < sz; ++i) { h = (h ^ data[i]) * 16777619u; }
    dprintf_(d, "user meta=%u st=%d size=%u hash=%08x\n", chunk_meta, (int) st, sz, h);
    return 0;
}

static void dump_file(const char * path, struct dump_s * d) {
    struct jls_rd_s * rd = NULL;
    CHECK(jls_rd_open(&rd, path));
    struct jls_source_def_s * sources = NULL;
    struct jls_signal_def_s * signals = NULL;
    uint16_t count = 0;
    CHECK(jls_rd_sources(rd, &sources, &count));
    for (uint16_t i = 0; i < count; ++i) {
        dprintf_(d, "source %d %s|%s|%s|%s|%s\n", sources[i].source_id, s_(sources[i].name), s_(sources[i].vendor),
                 s_(sources[i].model), s_(sources[i].version), s_(sources[i].serial_number));
    }
    CHECK(jls_rd_signals(rd, &signals, &count));
    for (uint16_t i = 0; i < count; ++i) {
        struct jls_signal_def_s s = signals[i];
        dprintf_(d, "signal %d src=%d type=%d dt=%08x rate=%u spd=%u sdf=%u eps=%u sumdf=%u adf=%u udf=%u %s|%s\n",
                 s.signal_id, s.source_id, s.signal_type, s.data_type, s.sample_rate, s.samples_per_data,
                 s.sample_decimate_factor, s.entries_per_summary, s.summary_decimate_factor,
                 s.annotation_decimate_factor, s.utc_decimate_factor, s_(s.name), s_(s.units));
        if (s.signal_type == JLS_SIGNAL_TYPE_FSR) {
            int64_t len = 0;
            CHECK(jls_rd_fsr_length(rd, s.signal_id, &len));
            dprintf_(d, "  length=%" PRIi64 "\n", len);
            uint8_t bits = (uint8_t) ((s.data_type >> 8) & 0xff);
            if (len > 0) {
                size_t nbytes = (size_t) ((len * bits + 7) / 8);
                uint8_t * buf = calloc(1, nbytes + 8);
                CHECK(jls_rd_fsr(rd, s.signal_id, 0, buf, len));
                if ((len * bits) % 8) {
                    buf[nbytes - 1] &= (uint8_t) ((1u << ((len * bits) % 8)) - 1u);
                }
                dprintf_(d, "  samples=");
                uint32_t h = 2166136261u;
                for (size_t k = 0; k < nbytes; ++k) { h = (h ^ buf[k]) * 16777619u; }
                dprintf_(d, "%08x\n", h);
                free(buf);
                if (bits <= 32) {
                    int64_t incrs[] = {1, 7, 100, 1000, 20000};
                    for (size_t k = 0; k < sizeof(incrs) / sizeof(incrs[0]); ++k) {
                        int64_t incr = incrs[k];
                        int64_t n = len / incr;
                        if (n > 50) { n = 50; }
                        if (n <= 0) { continue; }
                        double * st = calloc((size_t) n * 4, sizeof(double));
                        int32_t rc = jls_rd_fsr_statistics(rd, s.signal_id, 0, incr, st, n);
                        dprintf_(d, "  stats incr=%" PRIi64 " n=%" PRIi64 " rc=%d:", incr, n, (int) rc);
                        for (int64_t q = 0; q < n * 4; ++q) {
                            if (isnan(st[q])) { dprintf_(d, " nan"); } else { dprintf_(d, " %.9g", st[q]); }
                        }
                        dprintf_(d, "\n");
                        free(st);
                    }
                }
            }
            CHECK(jls_rd_utc(rd, s.signal_id, -1000000, on_utc, d));
        }
        CHECK(jls_rd_annotations(rd, s.signal_id, 0, on_anno, d));
    }
    CHECK(jls_rd_user_data(rd, on_user, d));
    jls_rd_close(rd);
    dput(d, "", 1);
    d->n -= 1;
}

static void file_copy_bytes(const char * src, const char * dst) {
    FILE * a = fopen(src, "rb");
    FILE * b = fopen(dst, "wb");
    if (!a || !b) { fprintf(stderr, "file_copy_bytes open failed\n"); exit(2); }
    char tmp[65536];
    size_t n;
    while ((n = fread(tmp, 1, sizeof(tmp), a)) > 0) { fwrite(tmp, 1, n, b); }
    fclose(a); fclose(b);
}

/* copy `orig` to `copy` with jls_copy, then compare what the reader sees.  Returns 0 when equal. */
static int copy_and_compare(const char * orig, const char * copy, int verbose) {
    struct dump_s d1 = {0}, d2 = {0};
    int32_t rc = jls_copy(orig, copy, NULL, NULL, NULL, NULL);
    if (rc) {
        printf("jls_copy(%s) returned %d\n", orig, (int) rc);
        return 1;
    }
    dump_file(copy, &d2);   // the copy first: reading an unclosed original repairs it in place
    dump_file(orig, &d1);
    int differ = (d1.n != d2.n) || (0 != memcmp(d1.b, d2.b, d1.n));
    if (differ || verbose) {
        const char * a = d1.b;
        const char * b = d2.b;
        int shown = 0;
        while ((*a || *b) && (shown < 8)) {
            size_t la = strcspn(a, "\n");
            size_t lb = strcspn(b, "\n");
            if ((la != lb) || memcmp(a, b, la)) {
                printf("  original: %.*s\n  copy    : %.*s\n", (int) (la > 160 ? 160 : la), a, (int) (lb > 160 ? 160 : lb), b);
                ++shown;
            }
            a += la; if (*a) { ++a; }
            b += lb; if (*b) { ++b; }
        }
    }
    printf("%s: copy %s\n", orig, differ ? "DIFFERS" : "matches");
    free(d1.b); free(d2.b);
    return differ;
}
#endif
