#include "cmp.h"

static const struct jls_source_def_s SRC1 = {.source_id = 1, .name = "src one", .vendor = "v", .model = "m", .version = "1.2", .serial_number = "sn1"};
static const struct jls_source_def_s SRC3 = {.source_id = 3, .name = "src three", .vendor = "", .model = "m3", .version = "", .serial_number = "sn3"};

static struct jls_signal_def_s sig(uint16_t id, uint16_t src, uint32_t dt, const char * name) {
    struct jls_signal_def_s s = {
        .signal_id = id, .source_id = src, .signal_type = JLS_SIGNAL_TYPE_FSR, .data_type = dt,
        .sample_rate = 1000, .samples_per_data = 1000, .sample_decimate_factor = 100,
        .entries_per_summary = 200, .summary_decimate_factor = 10,
        .annotation_decimate_factor = 10, .utc_decimate_factor = 10, .name = name, .units = "A"};
    return s;
}

static void gen(const char * path, const char * snapshot, int n_utc, int omit) {
    struct jls_wr_s * wr = NULL;
    CHECK(jls_wr_open(&wr, path));
    CHECK(jls_wr_source_def(wr, &SRC1));
    CHECK(jls_wr_source_def(wr, &SRC3));
    struct jls_signal_def_s s1 = sig(1, 1, JLS_DATATYPE_F32, "f32 sig");
    struct jls_signal_def_s s2 = sig(2, 3, JLS_DATATYPE_U8, "u8 sig");
    struct jls_signal_def_s s5 = sig(5, 3, JLS_DATATYPE_U1, "u1 sig");
    CHECK(jls_wr_signal_def(wr, &s1));
    CHECK(jls_wr_signal_def(wr, &s2));
    CHECK(jls_wr_signal_def(wr, &s5));
    CHECK(jls_wr_user_data(wr, 0x123, JLS_STORAGE_TYPE_STRING, (const uint8_t *) "hello", 0));
    static float f[937];
    static uint8_t u8[1201];
    static uint8_t u1[64];
    int64_t id1 = 5000, id2 = 0, id5 = 777;
    int utc_done = 0;
    for (int blk = 0; blk < 260; ++blk) {
        for (int i = 0; i < 937; ++i) { f[i] = (float) sin((double) (id1 + i) * 0.001) + (float) ((id1 + i) % 13); }
        CHECK(jls_wr_fsr(wr, 1, id1, f, 937)); id1 += 937;
        for (int i = 0; i < 1201; ++i) { u8[i] = (uint8_t) (((id2 + i) * 7) >> 3); }
        if (omit && (blk > 100) && (blk < 140)) { memset(u8, 9, sizeof(u8)); }
        CHECK(jls_wr_fsr(wr, 2, id2, u8, 1201)); id2 += 1201;
        for (int i = 0; i < 64; ++i) { u1[i] = (uint8_t) ((id5 + i * 31) * 2654435761u >> 13); }
        CHECK(jls_wr_fsr(wr, 5, id5, u1, 512)); id5 += 512;
        if ((blk % 7) == 3) {
            CHECK(jls_wr_annotation(wr, 1, id1 - 10, 1.5f, JLS_ANNOTATION_TYPE_TEXT, (uint8_t) blk, JLS_STORAGE_TYPE_STRING, (const uint8_t *) "note", 0));
            CHECK(jls_wr_annotation(wr, 2, id2 - 3, NAN, JLS_ANNOTATION_TYPE_USER, 1, JLS_STORAGE_TYPE_BINARY, u8, 33));
        }
        if (((blk % 5) == 1) && (utc_done < n_utc)) {
            CHECK(jls_wr_utc(wr, 1, id1, 1000000000LL * blk));
            CHECK(jls_wr_utc(wr, 5, id5, 1000000000LL * blk + 5));
            ++utc_done;
        }
        if (blk == 77) {
            uint8_t * big = malloc(3000000);
            for (int i = 0; i < 3000000; ++i) { big[i] = (uint8_t) (i * 31 >> 4); }
            CHECK(jls_wr_user_data(wr, 0x7, JLS_STORAGE_TYPE_BINARY, big, 3000000));
            CHECK(jls_wr_annotation(wr, 0, 12345, 2.0f, JLS_ANNOTATION_TYPE_USER, 2, JLS_STORAGE_TYPE_BINARY, big, 1500000));
            free(big);
        }
    }
    CHECK(jls_wr_user_data(wr, 0xfff, JLS_STORAGE_TYPE_JSON, (const uint8_t *) "{\"a\":1}", 0));
    if (snapshot) {
        CHECK(jls_wr_flush(wr));
        file_copy_bytes(path, snapshot);
    }
    CHECK(jls_wr_close(wr));
}

int main(int argc, char ** argv) {
    int n_utc = (argc > 1) ? atoi(argv[1]) : 5;
    int omit = (argc > 2) ? atoi(argv[2]) : 0;
    int fail = 0;
    gen("base_closed.jls", "base_unclosed.jls", n_utc, omit);
    fail |= copy_and_compare("base_closed.jls", "base_closed_copy.jls", 0);
    fail |= copy_and_compare("base_unclosed.jls", "base_unclosed_copy.jls", 0) << 1;
    return fail;
}
