#!/bin/sh
# Build the library sources of the tree this is run from plus the demo into a
# temporary directory and run the demo there.  Exit code = demo result.
set -e
ROOT=$(pwd)
HERE=$(cd "$(dirname "$0")" && pwd)
TMP=$(mktemp -d)
trap 'rm -rf "$TMP"' EXIT
SRCS="bit_shift buffer datatype copy core crc32c ec log msg_ring_buffer raw tmap reader statistics threaded_writer track wr_fsr wr_ts writer backend_posix"
FILES=""
for s in $SRCS; do FILES="$FILES $ROOT/src/$s.c"; done
cd "$TMP"
cc -std=gnu99 -O1 -g -Wall -Wextra -Wpedantic -Werror -DJLS_OPTIMIZE_CRC_DISABLE=1 \
    -I"$ROOT/include" -I"$ROOT/include_prv" -c $FILES
cc -std=gnu99 -O1 -g -Wall -Wextra -I"$ROOT/include" -I"$HERE" "$HERE/demo.c" ./*.o -lm -lpthread -o demo
set +e
timeout 300 ./demo "$@" 2>demo.stderr
RC=$?
if [ $RC -ne 0 ]; then tail -5 demo.stderr; fi
exit $RC
