/*
 * Baseline observation (unmodified tree): when the final, partial block of a
 * signal is omitted, the reported length is rounded down to a multiple of
 * sample_decimate_factor, while the same stream with that block stored
 * reports every written sample.
 *   case A: u8, last partial block constant (omitted automatically)
 *   case B: f32, same samples written with omission requested vs. not requested
 */
#include "jls/writer.h"
#include "jls/reader.h"
#include "jls/format.h"
#include <stdio.h>
#include <string.h>
#include <stdint.h>
#include <inttypes.h>

static const char * PATH = "c15_baseline.jls";
static const struct jls_source_def_s SOURCE = {
    .source_id = 1, .name = "s", .vendor = "v", .model = "m", .version = "1", .serial_number = "1",
};
#define REQ(x) do { int32_t rc__ = (x); if (rc__) { \
    printf("ERROR line %d: %s -> %d\n", __LINE__, #x, (int) rc__); return -1; } } while (0)

static int64_t length_u8(int last_const) {
    static uint8_t d[128 * 2 + 75];
    for (size_t i = 0; i < sizeof(d); ++i) { d[i] = (uint8_t) (i * 7 + 3); }
    memset(d + 256, 9, 75);
    if (!last_const) { d[sizeof(d) - 1] = 1; }
    struct jls_signal_def_s sig = {
        .signal_id = 1, .source_id = 1, .signal_type = JLS_SIGNAL_TYPE_FSR, .data_type = JLS_DATATYPE_U8,
        .sample_rate = 1000, .samples_per_data = 128, .sample_decimate_factor = 32, .entries_per_summary = 80,
        .summary_decimate_factor = 10, .annotation_decimate_factor = 100, .utc_decimate_factor = 100,
        .name = "u8", .units = "",
    };
    struct jls_wr_s * wr = NULL;
    REQ(jls_wr_open(&wr, PATH)); REQ(jls_wr_source_def(wr, &SOURCE)); REQ(jls_wr_signal_def(wr, &sig));
    REQ(jls_wr_fsr(wr, 1, 0, d, sizeof(d)));
    REQ(jls_wr_close(wr));
    struct jls_rd_s * rd = NULL;
    int64_t len = -1;
    REQ(jls_rd_open(&rd, PATH)); REQ(jls_rd_fsr_length(rd, 1, &len));
    jls_rd_close(rd); remove(PATH);
    return len;
}

static int64_t length_f32(int omit) {
    static float d[64 * 5 + 50];
    for (size_t i = 0; i < sizeof(d) / sizeof(d[0]); ++i) { d[i] = (float) i * 0.25f; }
    struct jls_signal_def_s sig = {
        .signal_id = 1, .source_id = 1, .signal_type = JLS_SIGNAL_TYPE_FSR, .data_type = JLS_DATATYPE_F32,
        .sample_rate = 1000, .samples_per_data = 64, .sample_decimate_factor = 16, .entries_per_summary = 80,
        .summary_decimate_factor = 10, .annotation_decimate_factor = 100, .utc_decimate_factor = 100,
        .name = "f32", .units = "",
    };
    struct jls_wr_s * wr = NULL;
    REQ(jls_wr_open(&wr, PATH)); REQ(jls_wr_source_def(wr, &SOURCE)); REQ(jls_wr_signal_def(wr, &sig));
    REQ(jls_wr_fsr_omit_data(wr, 1, (uint32_t) omit));
    REQ(jls_wr_fsr_f32(wr, 1, 0, d, sizeof(d) / sizeof(d[0])));
    REQ(jls_wr_close(wr));
    struct jls_rd_s * rd = NULL;
    int64_t len = -1;
    REQ(jls_rd_open(&rd, PATH)); REQ(jls_rd_fsr_length(rd, 1, &len));
    jls_rd_close(rd); remove(PATH);
    return len;
}

int main(void) {
    int fail = 0;
    int64_t a0 = length_u8(0), a1 = length_u8(1);
    printf("u8 : wrote 331; last block not constant -> length %" PRIi64 "; last block constant -> length %" PRIi64 "\n", a0, a1);
    fail |= (a0 != 331) || (a1 != 331);
    int64_t b0 = length_f32(0), b1 = length_f32(1);
    printf("f32: wrote 370; omission off -> length %" PRIi64 "; omission on -> length %" PRIi64 "\n", b0, b1);
    fail |= (b0 != b1);
    printf(fail ? "FAIL\n" : "PASS\n");
    return fail;
}
