#!/bin/sh
# Builds the library sources of the tree this is run from, plus demo.c, in a
# temporary directory and runs the demo.  Exit code = demo result.
HERE=$(cd "$(dirname "$0")" && pwd)
ROOT=$(pwd)
TMP=$(mktemp -d) || exit 99
trap 'rm -rf "$TMP"' EXIT
SRCS="bit_shift buffer datatype copy core crc32c ec log msg_ring_buffer raw tmap reader statistics threaded_writer track wr_fsr wr_ts writer backend_posix"
for f in $SRCS; do
    cc -std=gnu99 -O1 -g -Wall -Wextra -Wpedantic -Werror -DJLS_OPTIMIZE_CRC_DISABLE=1 \
        -I"$ROOT/include" -I"$ROOT/include_prv" -c "$ROOT/src/$f.c" -o "$TMP/$f.o" || exit 98
done
cc -std=gnu99 -O1 -g -Wall -Wextra -I"$ROOT/include" "$HERE/demo.c" "$TMP"/*.o -o "$TMP/demo" -lm -lpthread || exit 97
cd "$TMP" || exit 96
timeout 120 ./demo
