#!/bin/sh
# Build the library sources of the tree this is run from, plus the demo, in a
# temporary directory and run the demo.  Exit code = demo result.
set -e
HERE=$(cd "$(dirname "$0")" && pwd)
ROOT=$(pwd)
if [ ! -f "$ROOT/src/wr_fsr.c" ]; then
    ROOT=$(cd "$HERE/../.." && pwd)
fi
TMP=$(mktemp -d)
trap 'rm -rf "$TMP"' EXIT
SRCS="bit_shift buffer datatype copy core crc32c ec log msg_ring_buffer raw tmap reader statistics threaded_writer track wr_fsr wr_ts writer backend_posix"
FILES=""
for s in $SRCS; do
    FILES="$FILES $ROOT/src/$s.c"
done
${CC:-cc} -O1 -g -std=gnu11 -DJLS_OPTIMIZE_CRC_DISABLE=1 -I"$ROOT/include" -I"$ROOT/include_prv" \
    $FILES "$HERE/demo.c" -o "$TMP/demo" -lm -lpthread
set +e
TMPDIR="$TMP" timeout 120 "$TMP/demo"
RC=$?
exit $RC
