/*
 * Observations on the UNMODIFIED library (C09).
 *
 * 1. u8 signal: data, gap, then a short write of zero-valued samples.  The
 *    last block holds only zeros (gap fill + data), is constant, and is
 *    therefore omitted automatically.  The length is then taken from the
 *    level 1 summary and loses the samples beyond the last multiple of
 *    sample_decimate_factor: length != last id + 1 - first id.
 *
 * 2. f32 signal: a statistics window answered from the summaries that lies
 *    entirely inside a gap returns mean 0, min DBL_MAX, max -DBL_MAX, std 0
 *    (the reset value of the accumulator) instead of NaN, which the
 *    sample-level path returns for an all-gap window.
 */
#include "jls/writer.h"
#include "jls/reader.h"
#include <stdio.h>
#include <stdlib.h>
#include <string.h>
#include <math.h>

static const struct jls_source_def_s SRC = {
    .source_id = 1, .name = "s", .vendor = "v", .model = "m", .version = "1", .serial_number = "1",
};

static struct jls_signal_def_s sig = {
    .signal_id = 1, .source_id = 1, .signal_type = JLS_SIGNAL_TYPE_FSR, .data_type = JLS_DATATYPE_U8,
    .sample_rate = 1000, .samples_per_data = 1024, .sample_decimate_factor = 128,
    .entries_per_summary = 256, .summary_decimate_factor = 128,
    .annotation_decimate_factor = 100, .utc_decimate_factor = 100, .name = "x", .units = "A",
};

static int length_case(const char * fn) {
    struct jls_wr_s * wr;
    sig.data_type = JLS_DATATYPE_U8;
    if (jls_wr_open(&wr, fn)) return 2;
    jls_wr_source_def(wr, &SRC);
    jls_wr_signal_def(wr, &sig);
    uint8_t d[1100];
    for (int i = 0; i < 1100; ++i) d[i] = (uint8_t) (i + 1);
    uint8_t z[50];
    memset(z, 0, sizeof(z));
    if (jls_wr_fsr(wr, 1, 0, d, 1100)) return 3;
    if (jls_wr_fsr(wr, 1, 3000, z, 50)) return 3;   // gap [1100, 3000), then 50 zero-valued samples
    jls_wr_close(wr);
    struct jls_rd_s * rd;
    if (jls_rd_open(&rd, fn)) return 4;
    int64_t len = 0;
    jls_rd_fsr_length(rd, 1, &len);
    printf("1. length = %lld, expected 3050\n", (long long) len);
    jls_rd_close(rd);
    remove(fn);
    return (len == 3050) ? 0 : 1;
}

static int all_gap_window_case(const char * fn) {
    struct jls_wr_s * wr;
    sig.data_type = JLS_DATATYPE_F32;
    if (jls_wr_open(&wr, fn)) return 2;
    jls_wr_source_def(wr, &SRC);
    jls_wr_signal_def(wr, &sig);
    static float d[4096];
    for (int i = 0; i < 4096; ++i) d[i] = 1.0f + (float) (i % 7);
    if (jls_wr_fsr(wr, 1, 0, d, 4096)) return 3;
    if (jls_wr_fsr(wr, 1, 8192, d, 4096)) return 3;   // gap [4096, 8192)
    jls_wr_close(wr);
    struct jls_rd_s * rd;
    if (jls_rd_open(&rd, fn)) return 4;
    double s[JLS_SUMMARY_FSR_COUNT];
    int32_t rc = jls_rd_fsr_statistics(rd, 1, 4100, 4000, s, 1);   // window [4100, 8100) is all gap
    printf("2. rc=%d mean=%g min=%g max=%g std=%g, expected NaN for an all-gap window\n", (int) rc,
           s[JLS_SUMMARY_FSR_MEAN], s[JLS_SUMMARY_FSR_MIN], s[JLS_SUMMARY_FSR_MAX], s[JLS_SUMMARY_FSR_STD]);
    jls_rd_close(rd);
    remove(fn);
    return (0 == rc) && isnan(s[JLS_SUMMARY_FSR_MEAN]) ? 0 : 1;
}

int main(void) {
    char fn[256];
    snprintf(fn, sizeof(fn), "%s/c09_baseline.jls", getenv("TMPDIR") ? getenv("TMPDIR") : "/tmp");
    int fail = 0;
    fail |= length_case(fn);
    fail |= all_gap_window_case(fn);
    return fail ? 1 : 0;
}
