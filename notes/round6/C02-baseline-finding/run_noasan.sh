#!/bin/sh
# Build the library objects from the tree this is run in (cwd = worktree root)
# and the demo into a temporary directory, then run the demo.
set -e
ROOT=$(pwd)
HERE=$(cd "$(dirname "$0")" && pwd)
T=$(mktemp -d)
trap 'rm -rf "$T"' EXIT
CFLAGS="-std=gnu99 -O1 -g -DJLS_OPTIMIZE_CRC_DISABLE=1 -I$ROOT/include -I$ROOT/include_prv"
for f in bit_shift buffer datatype copy core crc32c ec log msg_ring_buffer raw tmap \
         reader statistics threaded_writer track wr_fsr wr_ts writer backend_posix; do
    cc $CFLAGS -D__FILENAME__="\"$f.c\"" -c "$ROOT/src/$f.c" -o "$T/$f.o"
done
cc $CFLAGS -D__FILENAME__='"demo.c"' "$HERE/demo.c" "$T"/*.o -lm -lpthread -o "$T/demo"
cd "$T"
set +e
timeout 120 ./demo
rc=$?
exit $rc
