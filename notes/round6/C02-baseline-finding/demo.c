/*
 * Baseline finding (unmodified library): fsr_statistics() keeps pointers into
 * self->buf across the recursive "head" computation, which may realloc (move)
 * self->buf when it reads a data chunk larger than the current buffer (1 MiB
 * default).  The summary entries are then read through a dangling pointer.
 *
 * Needs: data chunks > 1 MiB, summary chunks < 1 MiB, a short final data chunk
 * (so that jls_rd_fsr_length does not grow the buffer first), and a first
 * statistics request served from summaries with an unaligned start.
 */
#include "jls/writer.h"
#include "jls/reader.h"
#include "jls/format.h"
#include <stdio.h>
#include <stdlib.h>
#include <stdint.h>
#include <math.h>

#define FILENAME "c02_baseline.jls"
#define SPD 1000
#define N   2500000

static const struct jls_source_def_s SOURCE = {
    .source_id = 1, .name = "s", .vendor = "v", .model = "m", .version = "1", .serial_number = "1",
};
static const struct jls_signal_def_s SIGNAL = {
    .signal_id = 1, .source_id = 1, .signal_type = JLS_SIGNAL_TYPE_FSR, .data_type = JLS_DATATYPE_F32,
    .sample_rate = 1000, .samples_per_data = SPD, .sample_decimate_factor = 8,
    .entries_per_summary = 100000, .summary_decimate_factor = 100,
    .annotation_decimate_factor = 100, .utc_decimate_factor = 100, .name = "sig", .units = "",
};

int main(void) {
    float * x = malloc(sizeof(float) * N);
    uint32_t lcg = 1;
    for (int64_t i = 0; i < N; ++i) {
        lcg = lcg * 1664525u + 1013904223u;
        x[i] = (float) ((int32_t) ((lcg >> 16) & 0x3ff) - 512) / 256.0f;
    }
    x[50000] = 100.0f;
    struct jls_wr_s * wr = NULL;
    if (jls_wr_open(&wr, FILENAME) || jls_wr_source_def(wr, &SOURCE) || jls_wr_signal_def(wr, &SIGNAL)) { return 2; }
    if (jls_wr_fsr_f32(wr, 1, 0, x, N) || jls_wr_close(wr)) { return 2; }

    struct jls_rd_s * rd = NULL;
    if (jls_rd_open(&rd, FILENAME)) { return 2; }
    struct jls_signal_def_s def;
    jls_rd_signal(rd, 1, &def);
    printf("spd=%u sdf=%u eps=%u\n", def.samples_per_data, def.sample_decimate_factor, def.entries_per_summary);
    int64_t start = 377;
    int64_t incr = 100000;
    double d[4];
    int32_t rc = jls_rd_fsr_statistics(rd, 1, start, incr, d, 1);
    long double sum = 0; double mn = INFINITY, mx = -INFINITY;
    for (int64_t i = start; i < start + incr; ++i) { sum += x[i]; if (x[i] < mn) mn = x[i]; if (x[i] > mx) mx = x[i]; }
    double mean = (double) (sum / incr);
    printf("rc=%d mean=%.7f (true %.7f) min=%.4f max=%.4f (true %.4f %.4f)\n", (int) rc, d[JLS_SUMMARY_FSR_MEAN], mean, d[JLS_SUMMARY_FSR_MIN], d[JLS_SUMMARY_FSR_MAX], mn, mx);
    int ok = (rc == 0) && (d[JLS_SUMMARY_FSR_MIN] == mn) && (d[JLS_SUMMARY_FSR_MAX] == mx) && (fabs(d[0] - mean) < 1e-5);
    jls_rd_close(rd);
    remove(FILENAME);
    free(x);
    printf("%s\n", ok ? "property holds" : "PROPERTY VIOLATED");
    return ok ? 0 : 1;
}
