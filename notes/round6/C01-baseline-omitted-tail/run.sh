#!/bin/sh
# Builds the library sources of the tree this is run from (worktree root = cwd)
# and demo.c into a temporary directory, then runs the demo there.
# Exit code = demo result (0 pass, non-zero fail).
HERE=$(cd "$(dirname "$0")" && pwd)
ROOT=$(pwd)
T=$(mktemp -d) || exit 99
trap 'rm -rf "$T"' EXIT
SRCS=""
for f in bit_shift buffer datatype copy core crc32c ec log msg_ring_buffer raw tmap reader \
         statistics threaded_writer track wr_fsr wr_ts writer backend_posix; do
    SRCS="$SRCS $ROOT/src/$f.c"
done
cc -std=gnu99 -O1 -g -DJLS_OPTIMIZE_CRC_DISABLE=1 -I"$ROOT/include" -I"$ROOT/include_prv" \
    $SRCS "$HERE/demo.c" -lm -lpthread -o "$T/demo" || exit 98
cd "$T" || exit 97
timeout 300 ./demo "$T/demo_tmp.jls" 2>"$T/stderr.txt"
rc=$?
[ $rc -ne 0 ] && tail -n 5 "$T/stderr.txt"
exit $rc
