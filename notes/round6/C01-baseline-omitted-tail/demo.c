// BASELINE finding (no patch): an 8-bit (or narrower) FSR signal whose last, partial
// data block is constant loses its trailing samples: the block is omitted automatically,
// only whole sample_decimate_factor groups get a summary entry, and the reader derives the
// length (and the reconstructed samples) from the summary.
#include "jls/writer.h"
#include "jls/reader.h"
#include "jls/format.h"
#include <stdio.h>
#include <stdlib.h>
#include <string.h>
#include <inttypes.h>

#define CHECK(x) do { int32_t rc__ = (x); if (rc__) { printf("FAIL %s -> %d (line %d)\n", #x, (int) rc__, __LINE__); exit(2); } } while (0)
#define N (2 * 1024 + 300)

int main(int argc, char ** argv) {
    const char * path = (argc > 1) ? argv[1] : "demo_tmp.jls";
    struct jls_source_def_s src = {.source_id = 1, .name = "s", .vendor = "v", .model = "m", .version = "1", .serial_number = "1"};
    struct jls_signal_def_s sig = {.signal_id = 1, .source_id = 1, .signal_type = JLS_SIGNAL_TYPE_FSR,
            .data_type = JLS_DATATYPE_U8, .sample_rate = 1000, .samples_per_data = 1024, .sample_decimate_factor = 128,
            .entries_per_summary = 160, .summary_decimate_factor = 10, .name = "sig", .units = "u"};
    static uint8_t ref[N];
    static uint8_t out[N];
    for (int i = 0; i < N; ++i) {
        ref[i] = (i < 2048) ? (uint8_t) (i * 31 + (i >> 3)) : 7;   // the last 300 samples are constant
    }
    struct jls_wr_s * wr = NULL;
    CHECK(jls_wr_open(&wr, path));
    CHECK(jls_wr_source_def(wr, &src));
    CHECK(jls_wr_signal_def(wr, &sig));
    CHECK(jls_wr_fsr(wr, 1, 0, ref, N));
    CHECK(jls_wr_close(wr));

    struct jls_rd_s * rd = NULL;
    struct jls_signal_def_s def;
    int64_t length = -1;
    int rc = 0;
    CHECK(jls_rd_open(&rd, path));
    CHECK(jls_rd_signal(rd, 1, &def));
    CHECK(jls_rd_fsr_length(rd, 1, &length));
    printf("samples_per_data=%u sample_decimate_factor=%u wrote=%d length=%" PRIi64 "\n",
           def.samples_per_data, def.sample_decimate_factor, N, length);
    if (length != N) {
        printf("FAIL length\n");
        rc = 1;
    }
    int32_t rv = jls_rd_fsr(rd, 1, N - 10, out, 10);
    if (rv) {
        printf("FAIL window ending at the last sample: rc=%d\n", (int) rv);
        rc = 1;
    } else if (memcmp(out, ref + N - 10, 10)) {
        printf("FAIL data\n");
        rc = 1;
    }
    jls_rd_close(rd);
    printf(rc ? "DEMO FAILED\n" : "DEMO OK\n");
    return rc;
}
