/*
 * Independent JLS structure checker, written from include/jls/format.h only.
 * It does not call into the library: it has its own CRC32C and walks the bytes.
 */
#include <stdint.h>
#include <stdio.h>
#include <stdlib.h>
#include <string.h>
#include <inttypes.h>

#define CK_TAG_SOURCE_DEF   0x01
#define CK_TAG_SIGNAL_DEF   0x02
#define CK_TAG_USER_DATA    0x40
#define CK_TAG_END          0xFF
#define CK_TRACK_FLAG       0x20
#define CK_CHUNK_DEF     0
#define CK_CHUNK_HEAD    1
#define CK_CHUNK_DATA    2
#define CK_CHUNK_INDEX   3
#define CK_CHUNK_SUMMARY 4
#define CK_TRACK_FSR 0
#define CK_TRACK_VSR 1
#define CK_TRACK_ANNO 2
#define CK_TRACK_UTC 3

struct ck_hdr {               // jls_chunk_header_s, 32 bytes
    uint64_t item_next;
    uint64_t item_prev;
    uint8_t tag;
    uint8_t rsv0;
    uint16_t chunk_meta;
    uint32_t payload_length;
    uint32_t payload_prev_length;
    uint32_t crc32;
};

struct ck_chunk {
    uint64_t offset;
    struct ck_hdr h;
    const uint8_t * payload;
};

struct ck_file {
    uint8_t * bytes;
    uint64_t size;
    struct ck_chunk * chunks;
    size_t count;
    uint32_t samples_per_data[256];
    int errors;
    int verbose;
};

static uint32_t ck_crc32c(const uint8_t * p, size_t n) {
    uint32_t crc = 0xFFFFFFFFU;
    while (n--) {
        crc ^= *p++;
        for (int k = 0; k < 8; ++k) {
            crc = (crc >> 1) ^ (0x82F63B78U & (0U - (crc & 1U)));
        }
    }
    return ~crc;
}

#define CK_ERR(f, ...) do { \
    if ((f)->errors < 25) { printf("  CHECK FAIL: " __VA_ARGS__); printf("\n"); } \
    (f)->errors++; } while (0)

static int ck_is_track(uint8_t tag) { return (tag & 0xE0) == CK_TRACK_FLAG; }
static int ck_track_type(uint8_t tag) { return (tag >> 3) & 3; }
static int ck_track_chunk(uint8_t tag) { return tag & 7; }

static struct ck_chunk * ck_find(struct ck_file * f, uint64_t offset) {
    size_t lo = 0, hi = f->count;
    while (lo < hi) {
        size_t mid = (lo + hi) / 2;
        if (f->chunks[mid].offset == offset) {
            return &f->chunks[mid];
        } else if (f->chunks[mid].offset < offset) {
            lo = mid + 1;
        } else {
            hi = mid;
        }
    }
    return NULL;
}

// identifies the doubly-linked list a chunk belongs to
static uint32_t ck_list_id(const struct ck_hdr * h) {
    if (h->tag == CK_TAG_SOURCE_DEF) return 1;
    if (h->tag == CK_TAG_USER_DATA) return 2;
    if (h->tag == CK_TAG_SIGNAL_DEF) return 3;
    if (h->tag == CK_TAG_END) return 4;
    if (ck_is_track(h->tag)) {
        int c = ck_track_chunk(h->tag);
        if ((c == CK_CHUNK_DEF) || (c == CK_CHUNK_HEAD)) return 3;  // signal list
        // (track type, chunk kind, signal, level)
        return 0x80000000U | ((uint32_t) h->tag << 16) | h->chunk_meta;
    }
    return 0;
}

static int64_t ck_payload_timestamp(const struct ck_chunk * c) {
    int64_t t = 0;
    if (c->h.payload_length >= 8) memcpy(&t, c->payload, 8);
    return t;
}

static uint32_t ck_payload_entry_count(const struct ck_chunk * c) {
    uint32_t n = 0;
    if (c->h.payload_length >= 12) memcpy(&n, c->payload + 8, 4);
    return n;
}

static void ck_walk(struct ck_file * f) {
    static const uint8_t ident[16] = {0x6a, 0x6c, 0x73, 0x66, 0x6d, 0x74, 0x0d, 0x0a,
                                      0x20, 0x0a, 0x20, 0x1a, 0x20, 0x20, 0xb2, 0x1c};
    if (f->size < 32) { CK_ERR(f, "file shorter than file header"); return; }
    if (memcmp(f->bytes, ident, 16)) { CK_ERR(f, "file identification mismatch"); }
    uint64_t length; uint32_t crc;
    memcpy(&length, f->bytes + 16, 8);
    memcpy(&crc, f->bytes + 28, 4);
    if (crc != ck_crc32c(f->bytes, 28)) { CK_ERR(f, "file header crc"); }
    if (length != f->size) { CK_ERR(f, "file header length %" PRIu64 " != file size %" PRIu64, length, f->size); }

    size_t cap = 1024;
    f->chunks = malloc(cap * sizeof(*f->chunks));
    uint64_t off = 32;
    uint32_t prev_len = 0;
    while (off < f->size) {
        if (off & 7) { CK_ERR(f, "chunk at %" PRIu64 " not 8-byte aligned", off); break; }
        if (off + 32 > f->size) { CK_ERR(f, "partial chunk header at %" PRIu64, off); break; }
        struct ck_chunk c;
        c.offset = off;
        memcpy(&c.h, f->bytes + off, 32);
        if (c.h.crc32 != ck_crc32c(f->bytes + off, 28)) { CK_ERR(f, "chunk header crc at %" PRIu64, off); break; }
        if (c.h.payload_prev_length != prev_len) {
            CK_ERR(f, "chunk at %" PRIu64 " (tag 0x%02x): payload_prev_length %" PRIu32 " but previous payload is %" PRIu32 " bytes",
                   off, c.h.tag, c.h.payload_prev_length, prev_len);
        }
        uint64_t disk = 0;
        c.payload = f->bytes + off + 32;
        if (c.h.payload_length) {
            uint64_t pl = c.h.payload_length;
            uint64_t pad = (8 - ((pl + 4) & 7)) & 7;
            disk = pl + pad + 4;
            if (off + 32 + disk > f->size) { CK_ERR(f, "chunk payload at %" PRIu64 " passes the end of file", off); break; }
            for (uint64_t k = 0; k < pad; ++k) {
                if (c.payload[pl + k]) { CK_ERR(f, "chunk at %" PRIu64 ": pad byte not zero", off); break; }
            }
            uint32_t pcrc;
            memcpy(&pcrc, c.payload + pl + pad, 4);
            if (pcrc != ck_crc32c(c.payload, pl)) { CK_ERR(f, "chunk payload crc at %" PRIu64, off); }
        }
        if (f->count == cap) {
            cap *= 2;
            f->chunks = realloc(f->chunks, cap * sizeof(*f->chunks));
        }
        f->chunks[f->count++] = c;
        if (f->verbose) {
            printf("    @%-8" PRIu64 " tag=0x%02x meta=0x%04x len=%-6" PRIu32 " prev_len=%-6" PRIu32 " next=%" PRIu64 " prev=%" PRIu64 "\n",
                   off, c.h.tag, c.h.chunk_meta, c.h.payload_length, c.h.payload_prev_length, c.h.item_next, c.h.item_prev);
        }
        if ((c.h.tag == CK_TAG_END) && (off + 32 + disk != f->size)) { CK_ERR(f, "END chunk at %" PRIu64 " is not the last chunk", off); }
        prev_len = c.h.payload_length;
        off += 32 + disk;
    }
    if (off != f->size) { CK_ERR(f, "walk stopped at %" PRIu64 ", file size %" PRIu64, off, f->size); }
    if (!f->count || (f->chunks[f->count - 1].h.tag != CK_TAG_END)) { CK_ERR(f, "last chunk is not END"); }
}

static void ck_links(struct ck_file * f) {
    for (size_t i = 0; i < f->count; ++i) {
        struct ck_chunk * c = &f->chunks[i];
        uint32_t id = ck_list_id(&c->h);
        if (c->h.item_next) {
            struct ck_chunk * n = ck_find(f, c->h.item_next);
            if (!n) {
                CK_ERR(f, "chunk at %" PRIu64 " (tag 0x%02x): item_next %" PRIu64 " is not a chunk", c->offset, c->h.tag, c->h.item_next);
            } else {
                if (ck_list_id(&n->h) != id) {
                    CK_ERR(f, "chunk at %" PRIu64 " (tag 0x%02x meta 0x%04x): item_next leads to tag 0x%02x meta 0x%04x",
                           c->offset, c->h.tag, c->h.chunk_meta, n->h.tag, n->h.chunk_meta);
                }
                if (n->h.item_prev != c->offset) {
                    CK_ERR(f, "chunk at %" PRIu64 ": item_next %" PRIu64 " has item_prev %" PRIu64, c->offset, n->offset, n->h.item_prev);
                }
                if (n->offset <= c->offset) { CK_ERR(f, "chunk at %" PRIu64 ": item_next goes backward", c->offset); }
            }
        }
        if (c->h.item_prev) {
            struct ck_chunk * p = ck_find(f, c->h.item_prev);
            if (!p) {
                CK_ERR(f, "chunk at %" PRIu64 " (tag 0x%02x): item_prev %" PRIu64 " is not a chunk", c->offset, c->h.tag, c->h.item_prev);
            } else if (p->h.item_next != c->offset) {
                CK_ERR(f, "chunk at %" PRIu64 " (tag 0x%02x): item_prev %" PRIu64 " has item_next %" PRIu64, c->offset, c->h.tag, p->offset, p->h.item_next);
            }
        }
    }
}

static void ck_tracks(struct ck_file * f) {
    // signal definitions first: samples_per_data gives the FSR index timestamps
    for (size_t i = 0; i < f->count; ++i) {
        struct ck_chunk * c = &f->chunks[i];
        if ((c->h.tag == CK_TAG_SIGNAL_DEF) && (c->h.payload_length >= 16) && (c->h.chunk_meta < 256)) {
            memcpy(&f->samples_per_data[c->h.chunk_meta], c->payload + 12, 4);
        }
    }
    for (size_t i = 0; i < f->count; ++i) {
        struct ck_chunk * c = &f->chunks[i];
        if (!ck_is_track(c->h.tag)) {
            continue;
        }
        int tt = ck_track_type(c->h.tag);
        int kind = ck_track_chunk(c->h.tag);
        uint16_t signal = c->h.chunk_meta & 0x0fff;
        int level = c->h.chunk_meta >> 12;
        if (kind == CK_CHUNK_HEAD) {
            if (c->h.payload_length != 128) { CK_ERR(f, "track head at %" PRIu64 ": payload %" PRIu32, c->offset, c->h.payload_length); continue; }
            for (int lvl = 0; lvl < 16; ++lvl) {
                uint64_t o;
                memcpy(&o, c->payload + 8 * lvl, 8);
                if (!o) continue;
                struct ck_chunk * t = ck_find(f, o);
                uint8_t want = (uint8_t) (CK_TRACK_FLAG | (tt << 3) | (lvl ? CK_CHUNK_INDEX : CK_CHUNK_DATA));
                uint16_t want_meta = (uint16_t) (signal | (lvl << 12));
                if (!t) {
                    CK_ERR(f, "track head at %" PRIu64 " level %d: offset %" PRIu64 " is not a chunk", c->offset, lvl, o);
                } else if ((t->h.tag != want) || (t->h.chunk_meta != want_meta)) {
                    CK_ERR(f, "track head at %" PRIu64 " level %d: leads to tag 0x%02x meta 0x%04x, expected tag 0x%02x meta 0x%04x",
                           c->offset, lvl, t->h.tag, t->h.chunk_meta, want, want_meta);
                } else if (t->h.item_prev) {
                    CK_ERR(f, "track head at %" PRIu64 " level %d: chunk is not the first of its list", c->offset, lvl);
                }
            }
        } else if (kind == CK_CHUNK_INDEX) {
            if (level < 1) { CK_ERR(f, "index at %" PRIu64 " with level 0", c->offset); }
            // immediately followed by its summary
            if ((i + 1) >= f->count) {
                CK_ERR(f, "index at %" PRIu64 " is the last chunk", c->offset);
            } else {
                struct ck_chunk * s = &f->chunks[i + 1];
                uint8_t want = (uint8_t) (CK_TRACK_FLAG | (tt << 3) | CK_CHUNK_SUMMARY);
                if ((s->h.tag != want) || (s->h.chunk_meta != c->h.chunk_meta)) {
                    CK_ERR(f, "INDEX at %" PRIu64 " (tag 0x%02x meta 0x%04x) is followed by tag 0x%02x meta 0x%04x, not by its SUMMARY",
                           c->offset, c->h.tag, c->h.chunk_meta, s->h.tag, s->h.chunk_meta);
                }
            }
            uint32_t n = ck_payload_entry_count(c);
            int64_t ts = ck_payload_timestamp(c);
            size_t esz = (tt == CK_TRACK_FSR) ? 8 : 16;
            if (16 + (uint64_t) n * esz != c->h.payload_length) {
                CK_ERR(f, "index at %" PRIu64 ": %" PRIu32 " entries do not match payload length %" PRIu32, c->offset, n, c->h.payload_length);
                continue;
            }
            for (uint32_t k = 0; k < n; ++k) {
                uint64_t o;
                int64_t ets = 0;
                if (tt == CK_TRACK_FSR) {
                    memcpy(&o, c->payload + 16 + 8 * k, 8);
                } else {
                    memcpy(&ets, c->payload + 16 + 16 * k, 8);
                    memcpy(&o, c->payload + 16 + 16 * k + 8, 8);
                }
                if (!o) {
                    if ((tt != CK_TRACK_FSR) || (level != 1)) { CK_ERR(f, "index at %" PRIu64 " entry %" PRIu32 ": zero offset", c->offset, k); }
                    continue;  // omitted FSR data
                }
                struct ck_chunk * t = ck_find(f, o);
                uint8_t want = (uint8_t) (CK_TRACK_FLAG | (tt << 3) | ((level > 1) ? CK_CHUNK_INDEX : CK_CHUNK_DATA));
                uint16_t want_meta = (uint16_t) (signal | ((level - 1) << 12));
                if (!t) {
                    CK_ERR(f, "index at %" PRIu64 " entry %" PRIu32 ": offset %" PRIu64 " is not a chunk", c->offset, k, o);
                    continue;
                }
                if ((t->h.tag != want) || (t->h.chunk_meta != want_meta)) {
                    CK_ERR(f, "index at %" PRIu64 " (meta 0x%04x) entry %" PRIu32 ": leads to tag 0x%02x meta 0x%04x, expected tag 0x%02x meta 0x%04x",
                           c->offset, c->h.chunk_meta, k, t->h.tag, t->h.chunk_meta, want, want_meta);
                    continue;
                }
                if (tt == CK_TRACK_FSR) {
                    if ((k == 0) && (ck_payload_timestamp(t) != ts)) {
                        CK_ERR(f, "fsr index at %" PRIu64 ": first entry timestamp %" PRIi64 " != %" PRIi64, c->offset, ck_payload_timestamp(t), ts);
                    }
                    if ((level == 1) && (ck_payload_timestamp(t) != ts + (int64_t) k * f->samples_per_data[signal & 0xff])) {
                        CK_ERR(f, "fsr index at %" PRIu64 " entry %" PRIu32 ": data timestamp %" PRIi64, c->offset, k, ck_payload_timestamp(t));
                    }
                } else {
                    if (ck_payload_timestamp(t) != ets) {
                        CK_ERR(f, "index at %" PRIu64 " entry %" PRIu32 ": timestamp %" PRIi64 " but chunk has %" PRIi64, c->offset, k, ets, ck_payload_timestamp(t));
                    }
                }
            }
        }
    }
}

// returns the number of violations found
static int jlscheck(const char * path, int verbose) {
    struct ck_file f;
    memset(&f, 0, sizeof(f));
    f.verbose = verbose;
    FILE * fh = fopen(path, "rb");
    if (!fh) { printf("  CHECK FAIL: cannot open %s\n", path); return 1; }
    fseek(fh, 0, SEEK_END);
    f.size = (uint64_t) ftell(fh);
    fseek(fh, 0, SEEK_SET);
    f.bytes = malloc(f.size + 1);
    if (fread(f.bytes, 1, f.size, fh) != f.size) { printf("  CHECK FAIL: read\n"); fclose(fh); return 1; }
    fclose(fh);
    ck_walk(&f);
    if (!f.errors) {
        ck_links(&f);
        ck_tracks(&f);
    }
    printf("  jlscheck %s: %zu chunks, %d violation(s)\n", path, f.count, f.errors);
    free(f.chunks);
    free(f.bytes);
    return f.errors;
}

#include "jls/writer.h"
#include "jls/reader.h"
#include "jls/format.h"
#include <unistd.h>

#define REQ(x) do { int32_t rc__ = (x); if (rc__) { printf("FAIL: %s returned %d (line %d)\n", #x, (int) rc__, __LINE__); return 1; } } while (0)

static const struct jls_source_def_s SRC = {
    .source_id = 1, .name = "src", .vendor = "v", .model = "m", .version = "1", .serial_number = "sn",
};

static const struct jls_signal_def_s SIG = {
    .signal_id = 5, .source_id = 1, .signal_type = JLS_SIGNAL_TYPE_FSR, .data_type = JLS_DATATYPE_F32,
    .sample_rate = 1000, .samples_per_data = 1000, .sample_decimate_factor = 100,
    .entries_per_summary = 100, .summary_decimate_factor = 10,
    .name = "sig", .units = "V",
};

#define BLOCK 500
static float block[BLOCK];

static float sample_value(int64_t i) {
    return (float) ((i * 7) % 1013) * 0.125f;
}

static int copy_file(const char * src, const char * dst, long cut) {
    FILE * fi = fopen(src, "rb");
    FILE * fo = fopen(dst, "wb");
    if (!fi || !fo) { printf("FAIL: copy open\n"); return 1; }
    fseek(fi, 0, SEEK_END);
    long sz = ftell(fi) - cut;
    fseek(fi, 0, SEEK_SET);
    char * b = malloc((size_t) sz);
    if (fread(b, 1, (size_t) sz, fi) != (size_t) sz) { printf("FAIL: copy read\n"); return 1; }
    fwrite(b, 1, (size_t) sz, fo);
    free(b);
    fclose(fi);
    fclose(fo);
    return 0;
}

// The writer process dies after `blocks` blocks of samples: the file on disk
// at that moment is `snap` (taken after a flush, the writer is never closed for it).
// cut = bytes of the last chunk that did not reach the disk (0: died between two chunks).
static int crashed_file(const char * work, const char * snap, int blocks, long cut) {
    struct jls_wr_s * wr = NULL;
    REQ(jls_wr_open(&wr, work));
    REQ(jls_wr_source_def(wr, &SRC));
    REQ(jls_wr_signal_def(wr, &SIG));
    for (int b = 0; b < blocks; ++b) {
        for (int i = 0; i < BLOCK; ++i) {
            block[i] = sample_value((int64_t) b * BLOCK + i);
        }
        REQ(jls_wr_fsr_f32(wr, 5, (int64_t) b * BLOCK, block, BLOCK));
    }
    REQ(jls_wr_flush(wr));
    if (copy_file(work, snap, cut)) {
        return 1;
    }
    REQ(jls_wr_close(wr));
    return 0;
}

static int repair_and_check(const char * path, int64_t samples_min, int verbose) {
    struct jls_rd_s * rd = NULL;
    int64_t samples = 0;
    REQ(jls_rd_open(&rd, path));          // repairs the file in place
    REQ(jls_rd_fsr_length(rd, 5, &samples));
    printf("  repaired: reader finds %" PRIi64 " samples\n", samples);
    if (samples < samples_min) {
        printf("FAIL: expected at least %" PRIi64 " samples\n", samples_min);
        jls_rd_close(rd);
        return 1;
    }
    float * y = malloc((size_t) samples * sizeof(float));
    REQ(jls_rd_fsr_f32(rd, 5, 0, y, samples));
    for (int64_t i = 0; i < samples; ++i) {
        if (y[i] != sample_value(i)) {
            printf("FAIL: sample %" PRIi64 " mismatch\n", i);
            return 1;
        }
    }
    free(y);
    jls_rd_close(rd);
    if (jlscheck(path, verbose)) {
        printf("FAIL: repaired file does not conform to the format\n");
        return 1;
    }
    // a second open must find a properly closed file and leave it alone
    REQ(jls_rd_open(&rd, path));
    jls_rd_close(rd);
    if (jlscheck(path, 0)) {
        printf("FAIL: reopened file does not conform to the format\n");
        return 1;
    }
    return 0;
}

int main(int argc, char ** argv) {
    const char * dir = (argc > 1) ? argv[1] : "/tmp";
    int verbose = (argc > 2);
    char work[512];
    char snap[512];
    int fails = 0;
    snprintf(work, sizeof(work), "%s/c05_work.jls", dir);
    snprintf(snap, sizeof(snap), "%s/c05_crashed.jls", dir);

    struct { const char * name; int blocks; long cut; int64_t samples_min; } cases[] = {
        {"closed normally (no repair)", 0, 0, 0},
        // 250 blocks = 125000 samples = 120 data chunks of 1040; the 120th completes the 12th level 1
        // INDEX + SUMMARY pair, which ends the file.  The last 1000 bytes (of the 1616 + pad + crc byte
        // SUMMARY payload) did not reach the disk: the file ends with an INDEX whose SUMMARY is torn.
        {"torn level 1 SUMMARY right after its INDEX", 250, 1000, 114400},
    };
    for (size_t k = 0; k < sizeof(cases) / sizeof(cases[0]); ++k) {
        printf("case %zu: %s\n", k, cases[k].name);
        if (0 == cases[k].blocks) {
            if (crashed_file(work, snap, 40, 0) || jlscheck(work, 0)) {
                printf("FAIL: normally closed file\n");
                fails++;
            }
            continue;
        }
        if (crashed_file(work, snap, cases[k].blocks, cases[k].cut)) { fails++; continue; }
        if (repair_and_check(snap, cases[k].samples_min, verbose)) {
            fails++;
        }
    }
    unlink(work);
    unlink(snap);
    printf("%s\n", fails ? "RESULT: FAIL" : "RESULT: PASS");
    return fails ? 1 : 0;
}
