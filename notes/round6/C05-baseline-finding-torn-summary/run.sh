#!/bin/sh
# Builds the library objects from the tree this is run in (worktree root = cwd) and the demo, then runs it.
ROOT=$(pwd)
HERE="$ROOT/seed_out/baseline-finding-torn-summary"
OUT=$(mktemp -d /tmp/c05_baseline.XXXXXX) || exit 99
SRCS="bit_shift buffer datatype copy core crc32c ec log msg_ring_buffer raw tmap reader statistics threaded_writer track wr_fsr wr_ts writer backend_posix"
for s in $SRCS; do
  cc -O1 -g -msse4.2 -I"$ROOT/include" -I"$ROOT/include_prv" -c "$ROOT/src/$s.c" -o "$OUT/$s.o" || exit 98
done
cc -O1 -g -Wall -I"$ROOT/include" "$HERE/demo.c" "$OUT"/*.o -o "$OUT/demo" -lm -lpthread || exit 97
timeout 120 "$OUT/demo" "$OUT"
RC=$?
rm -rf "$OUT"
exit $RC
