#include "jls/statistics.h"
#include <stdio.h>
int main(void) {
    // baseline probe: constant sequences, min <= mean <= max
    int bad = 0;
    double vals[] = {0.1, 0.3, 1e-7, 123456.789, 1.1};
    for (int v = 0; v < 5; ++v) {
        double x[100];
        for (int i = 0; i < 100; ++i) x[i] = vals[v];
        for (int n = 1; n <= 100; ++n) {
            struct jls_statistics_s c, a;
            jls_statistics_compute_f64(&c, x, n);
            jls_statistics_reset(&a);
            for (int i = 0; i < n; ++i) jls_statistics_add(&a, x[i]);
            if (c.mean < c.min || c.mean > c.max) { if (bad < 5) printf("compute n=%d v=%g mean=%.17g min=%.17g s=%g\n", n, vals[v], c.mean, c.min, c.s); bad++; }
            if (a.mean < a.min || a.mean > a.max) { if (bad < 5) printf("add n=%d v=%g mean=%.17g\n", n, vals[v], a.mean); bad++; }
            for (int sp = 1; sp < n; ++sp) {
                struct jls_statistics_s p, q, t;
                jls_statistics_compute_f64(&p, x, sp);
                jls_statistics_compute_f64(&q, x + sp, n - sp);
                jls_statistics_combine(&t, &p, &q);
                if (t.mean < t.min || t.mean > t.max) { if (bad < 8) printf("combine n=%d sp=%d v=%g mean=%.17g min=%.17g\n", n, sp, vals[v], t.mean, t.min); bad++; }
            }
        }
    }
    printf("bad=%d\n", bad);
    return bad ? 1 : 0;
}
