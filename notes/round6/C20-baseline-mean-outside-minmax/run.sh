#!/bin/sh
# Build the library sources of the tree this is run in plus the demo into a
# temporary directory, then run the demo.  Exit code = demo result.
# Invoke from the worktree root:  sh seed_out/<name>/run.sh
set -e
HERE=$(cd "$(dirname "$0")" && pwd)
ROOT=$(cd "$HERE/../.." && pwd)
TMP=$(mktemp -d)
trap 'rm -rf "$TMP"' EXIT
CC=${CC:-cc}
SRCS="bit_shift buffer datatype copy core crc32c ec log msg_ring_buffer raw tmap reader statistics threaded_writer track wr_fsr wr_ts writer backend_posix"
OBJS=""
for n in $SRCS; do
    $CC -std=gnu11 -O2 -DJLS_OPTIMIZE_CRC_DISABLE=1 -I"$ROOT/include" -I"$ROOT/include_prv" \
        -c "$ROOT/src/$n.c" -o "$TMP/$n.o"
    OBJS="$OBJS $TMP/$n.o"
done
$CC -std=gnu11 -O2 -I"$ROOT/include" "$HERE/demo.c" $OBJS -lm -lpthread -o "$TMP/demo"
set +e
timeout 120 "$TMP/demo"
rc=$?
exit $rc
