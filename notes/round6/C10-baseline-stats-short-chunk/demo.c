/*
 * BASELINE finding (unmodified library): jls_rd_fsr_statistics over-reads the
 * reader's chunk buffer when the data chunk it converts is shorter than
 * samples_per_data and samples_per_data * sample_size exceeds the buffer
 * allocation (1 MiB by default, grown only to the largest payload seen).
 *
 * reader.c, jls_core_fsr_statistics (level 0 path):
 *     jls_dt_buffer_to_f64(&s->data[0], data_type, f64_sample_buf->start, signal_def->samples_per_data);
 * converts samples_per_data samples although the chunk holds only
 * s->header.entry_count of them.
 *
 * Here: f32 signal with samples_per_data = 4 Mi samples (16 MiB per chunk, all
 * parameters below SIGNAL_DEF_PARAM_MAX), 100 samples written, file closed
 * normally, then a statistics request over the first 10 samples.
 * Observed: SIGSEGV with plain glibc malloc (exit 139); with
 * -fsanitize=address: heap-buffer-overflow READ in jls_dt_buffer_to_f64
 * (datatype.c) called from reader.c:470, 0 bytes right of the 1048576-byte
 * region allocated by jls_buf_alloc.
 */
#include "jls/writer.h"
#include "jls/reader.h"
#include "jls/ec.h"
#include <stdio.h>
#include <stdlib.h>
#include <unistd.h>
int main(int argc, char ** argv) {
    const char * path = (argc > 1) ? argv[1] : "/tmp/c10_base1.jls";
    alarm(120);
    struct jls_source_def_s source = {.source_id = 1, .name = "src", .vendor = "v", .model = "m", .version = "1", .serial_number = "s"};
    struct jls_signal_def_s sig = {
        .signal_id = 3, .source_id = 1, .signal_type = JLS_SIGNAL_TYPE_FSR,
        .data_type = JLS_DATATYPE_F32, .sample_rate = 1000,
        .samples_per_data = 1U << 22, .sample_decimate_factor = 1024,
        .entries_per_summary = 8192, .summary_decimate_factor = 16,
        .name = "sig3", .units = "V",
    };
    struct jls_wr_s * wr = NULL;
    if (jls_wr_open(&wr, path)) return 10;
    if (jls_wr_source_def(wr, &source)) return 11;
    int32_t rc = jls_wr_signal_def(wr, &sig);
    printf("def %d\n", rc);
    if (rc) return 12;
    float samples[100];
    for (int i = 0; i < 100; ++i) samples[i] = (float) i;
    if (jls_wr_fsr_f32(wr, 3, 0, samples, 100)) return 13;
    if (jls_wr_close(wr)) return 14;
    struct jls_rd_s * rd = NULL;
    if (jls_rd_open(&rd, path)) return 15;
    struct jls_signal_def_s d; jls_rd_signal(rd, 3, &d);
    printf("spd=%u\n", d.samples_per_data);
    double stats[40];
    rc = jls_rd_fsr_statistics(rd, 3, 0, 1, stats, 10);
    printf("stats rc=%d mean0=%f mean9=%f\n", rc, stats[0], stats[36]);
    jls_rd_close(rd);
    remove(path);
    return 0;
}
