#!/bin/sh
# Build the library objects from the tree this is run in, build the demo, run it.
# Usage (from the worktree root): sh seed_out/baseline-stats-short-chunk/run.sh
# Exit code = demo result (0 pass; non-zero fail).
here=$(cd "$(dirname "$0")" && pwd)
root=$(cd "$here/../.." && pwd)
tmp=$(mktemp -d /tmp/c10_seed_XXXXXX) || exit 99
trap 'rm -rf "$tmp"' EXIT
CC=${CC:-cc}
case "$(uname -m)" in
    x86_64|amd64) ARCH_FLAGS="-msse4.2" ;;
    *)            ARCH_FLAGS="-DJLS_OPTIMIZE_CRC_DISABLE=1" ;;
esac
CFLAGS="-std=gnu99 -O1 -g -Wall -Wextra -Wpedantic -Werror -fPIC $ARCH_FLAGS -I$root/include -I$root/include_prv"
objs=""
for f in bit_shift buffer datatype copy core crc32c ec log msg_ring_buffer raw tmap reader \
         statistics threaded_writer track wr_fsr wr_ts writer backend_posix; do
    $CC $CFLAGS -D__FILENAME__="\"$f.c\"" -c "$root/src/$f.c" -o "$tmp/$f.o" || exit 98
    objs="$objs $tmp/$f.o"
done
$CC $CFLAGS -c "$here/demo.c" -o "$tmp/demo.o" || exit 97
$CC -o "$tmp/demo" "$tmp/demo.o" $objs -lm -lpthread || exit 96
timeout 300 "$tmp/demo" "$tmp/demo.jls"
rc=$?
echo "demo exit code: $rc"
exit $rc
