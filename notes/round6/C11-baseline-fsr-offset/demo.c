/*
 * Baseline observation (unmodified library): annotations on an FSR signal whose
 * first sample id is not 0 do not come back with the timestamp they were written with.
 * The reader subtracts the signal's sample_id_offset (first sample id written) from
 * every annotation timestamp, but jls_wr_annotation stores the timestamp unchanged.
 *
 * usage: demo <file.jls>; exit 0 = timestamps round trip, 1 = they do not
 */
#include "jls/writer.h"
#include "jls/reader.h"
#include <stdio.h>
#include <stdlib.h>
#include <string.h>

static int64_t got[8];
static int got_n;

static int32_t on_annotation(void * user_data, const struct jls_annotation_s * a) {
    (void) user_data;
    if (got_n < 8) {
        got[got_n++] = a->timestamp;
    }
    return 0;
}

int main(int argc, char * argv[]) {
    if (argc < 2) { return 2; }
    const struct jls_source_def_s source = {
        .source_id = 1, .name = "s", .vendor = "v", .model = "m", .version = "1", .serial_number = "1",
    };
    const struct jls_signal_def_s signal = {
        .signal_id = 2, .source_id = 1, .signal_type = JLS_SIGNAL_TYPE_FSR, .data_type = JLS_DATATYPE_F32,
        .sample_rate = 1000, .samples_per_data = 100, .sample_decimate_factor = 10,
        .entries_per_summary = 10, .summary_decimate_factor = 10,
        .annotation_decimate_factor = 10, .utc_decimate_factor = 10, .name = "sig", .units = "A",
    };
    static float data[1000];
    const int64_t first_sample_id = 5000;
    const int64_t ts[3] = {5100, 5200, 5900};
    struct jls_wr_s * wr = NULL;
    if (jls_wr_open(&wr, argv[1])) { return 2; }
    if (jls_wr_source_def(wr, &source)) { return 2; }
    if (jls_wr_signal_def(wr, &signal)) { return 2; }
    if (jls_wr_fsr_f32(wr, 2, first_sample_id, data, 1000)) { return 2; }
    for (int i = 0; i < 3; ++i) {
        if (jls_wr_annotation(wr, 2, ts[i], 1.0f, JLS_ANNOTATION_TYPE_TEXT, 0,
                              JLS_STORAGE_TYPE_STRING, (const uint8_t *) "hi", 3)) { return 2; }
    }
    if (jls_wr_close(wr)) { return 2; }
    struct jls_rd_s * rd = NULL;
    if (jls_rd_open(&rd, argv[1])) { return 2; }
    int32_t rc = jls_rd_annotations(rd, 2, 0, on_annotation, NULL);
    jls_rd_close(rd);
    remove(argv[1]);
    int fail = (rc != 0) || (got_n != 3);
    for (int i = 0; i < got_n; ++i) {
        printf("written %lld, read %lld\n", (long long) ts[i], (long long) got[i]);
        if (got[i] != ts[i]) { fail = 1; }
    }
    printf(fail ? "FAIL\n" : "PASS\n");
    return fail;
}
