#!/bin/sh
# Build the library sources of the tree this is run from plus demo.c into a
# temporary directory, run the demo.  Exit code = demo result.
# usage (from the worktree root): sh seed_out/baseline-fsr-offset/run.sh
HERE=$(cd "$(dirname "$0")" && pwd)
ROOT=$(pwd)
TMP=$(mktemp -d /tmp/c11demo.XXXXXX) || exit 2
trap 'rm -rf "$TMP"' EXIT
SRCS=""
for f in bit_shift buffer datatype copy core crc32c ec log msg_ring_buffer raw tmap reader \
         statistics threaded_writer track wr_fsr wr_ts writer backend_posix; do
    SRCS="$SRCS $ROOT/src/$f.c"
done
cc -std=gnu99 -O1 -g -DJLS_OPTIMIZE_CRC_DISABLE=1 -I"$ROOT/include" -I"$ROOT/include_prv" \
    -o "$TMP/demo" "$HERE/demo.c" $SRCS -lm -lpthread || exit 2
timeout 120 "$TMP/demo" "$TMP/demo.jls"
