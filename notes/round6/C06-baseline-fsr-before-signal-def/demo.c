/*
 * Baseline observation (UNMODIFIED library): jls_twr_fsr on a signal that is
 * not defined yet is accepted with an empty payload (entry size 0); if
 * jls_twr_signal_def (which bypasses the queue) lands before the writer thread
 * processes the queued message, jls_wr_fsr reads sample_count entries from the
 * ring beyond the message.
 *
 * Synchronous writer, same calls in submission order:
 *   jls_wr_fsr(5, ...) -> error (signal not defined), no effect
 *   jls_wr_signal_def(5) -> ok
 * => signal 5 has 0 samples.
 */
#define _GNU_SOURCE
#include "jls/threaded_writer.h"
#include "jls/reader.h"
#include "jls/format.h"
#include "jls/ec.h"
#include <dlfcn.h>
#include <pthread.h>
#include <signal.h>
#include <stdio.h>
#include <stdlib.h>
#include <string.h>
#include <sys/syscall.h>
#include <time.h>
#include <unistd.h>

static pthread_t main_thread;
static pthread_mutex_t gate_mutex = PTHREAD_MUTEX_INITIALIZER;
static pthread_cond_t gate_cond = PTHREAD_COND_INITIALIZER;
static int gate_closed = 0;
static int gate_blocked = 0;
static volatile int unlock_hook_armed = 0;

ssize_t write(int fd, const void * buf, size_t count) {
    if (!pthread_equal(pthread_self(), main_thread)) {
        pthread_mutex_lock(&gate_mutex);
        if (gate_closed) {
            ++gate_blocked;
            pthread_cond_broadcast(&gate_cond);
            while (gate_closed) {
                pthread_cond_wait(&gate_cond, &gate_mutex);
            }
        }
        pthread_mutex_unlock(&gate_mutex);
    }
    return syscall(SYS_write, fd, buf, count);
}

int pthread_mutex_unlock(pthread_mutex_t * mutex) {
    static int (*real_unlock)(pthread_mutex_t *) = NULL;
    if (!real_unlock) {
        real_unlock = (int (*)(pthread_mutex_t *)) dlsym(RTLD_NEXT, "pthread_mutex_unlock");
        if (!real_unlock) {
            _exit(3);
        }
    }
    int rc = real_unlock(mutex);
    if (unlock_hook_armed && (mutex != &gate_mutex) && !pthread_equal(pthread_self(), main_thread)) {
        // the writer thread released a library mutex: deschedule it for a while
        unlock_hook_armed = 0;
        struct timespec ts = {0, 300 * 1000 * 1000};
        nanosleep(&ts, NULL);
    }
    return rc;
}

static void gate_set(int closed) {
    pthread_mutex_lock(&gate_mutex);
    gate_closed = closed;
    pthread_cond_broadcast(&gate_cond);
    pthread_mutex_unlock(&gate_mutex);
}

static void gate_wait_blocked(void) {
    pthread_mutex_lock(&gate_mutex);
    while (!gate_blocked) {
        pthread_cond_wait(&gate_cond, &gate_mutex);
    }
    pthread_mutex_unlock(&gate_mutex);
}

static void * opener(void * arg) {
    (void) arg;
    struct timespec ts = {0, 200 * 1000 * 1000};
    nanosleep(&ts, NULL);
    unlock_hook_armed = 1;
    gate_set(0);
    return NULL;
}

static const struct jls_source_def_s SOURCE_3 = {
        .source_id = 3, .name = "s", .vendor = "v", .model = "m", .version = "1", .serial_number = "0",
};

static const struct jls_signal_def_s SIGNAL_5 = {
        .signal_id = 5,
        .source_id = 3,
        .signal_type = JLS_SIGNAL_TYPE_FSR,
        .data_type = JLS_DATATYPE_F32,
        .sample_rate = 100000,
        .samples_per_data = 1000,
        .sample_decimate_factor = 100,
        .entries_per_summary = 200,
        .summary_decimate_factor = 100,
        .annotation_decimate_factor = 100,
        .utc_decimate_factor = 100,
        .name = "signal 5",
        .units = "A",
};

#define FAIL(...) do { printf("FAIL: " __VA_ARGS__); printf("\n"); fflush(stdout); _exit(1); } while (0)
#define REQ(x) do { int32_t rc__ = (x); if (rc__) { FAIL("%s returned %d at line %d", #x, (int) rc__, __LINE__); } } while (0)

static void on_alarm(int sig) {
    (void) sig;
    static const char msg[] = "FAIL: timeout (hang)\n";
    syscall(SYS_write, 1, msg, sizeof(msg) - 1);
    _exit(2);
}

int main(int argc, char * argv[]) {
    const char * path = (argc > 1) ? argv[1] : "/tmp/c06_baseline_demo.jls";
    struct jls_twr_s * wr = NULL;
    static float data[1000];
    static uint8_t a[64];
    pthread_t th;
    main_thread = pthread_self();
    signal(SIGALRM, on_alarm);
    alarm(60);
    for (int i = 0; i < 1000; ++i) { data[i] = 1.0f + (float) i; }

    REQ(jls_twr_open(&wr, path));
    REQ(jls_twr_source_def(wr, &SOURCE_3));

    gate_set(1);
    REQ(jls_twr_user_data(wr, 1, JLS_STORAGE_TYPE_BINARY, a, sizeof(a)));  // parks the writer thread
    gate_wait_blocked();

    int32_t rc = jls_twr_fsr(wr, 5, 0, data, 1000);   // signal 5 not defined yet
    printf("jls_twr_fsr before signal_def returned %d\n", (int) rc);
    int fsr_accepted = (rc == 0);

    pthread_create(&th, NULL, opener, NULL);
    REQ(jls_twr_signal_def(wr, &SIGNAL_5));   // waits for the parked writer thread, then applies directly
    pthread_join(th, NULL);
    REQ(jls_twr_close(wr));

    struct jls_rd_s * rd = NULL;
    REQ(jls_rd_open(&rd, path));
    int64_t length = -1;
    REQ(jls_rd_fsr_length(rd, 5, &length));
    printf("signal 5 length %lld\n", (long long) length);
    if (length > 0) {
        static float out[1000];
        REQ(jls_rd_fsr(rd, 5, 0, out, length > 1000 ? 1000 : length));
        printf("first samples in file: %g %g %g (submitted %g %g %g)\n",
               out[0], out[1], out[2], data[0], data[1], data[2]);
        if (fsr_accepted && (length == 1000) && !memcmp(out, data, sizeof(data))) {
            printf("PASS (accepted and stored intact)\n");
            return 0;
        }
        FAIL("file holds %lld samples for signal 5 that no call supplied", (long long) length);
    }
    jls_rd_close(rd);
    remove(path);
    printf("PASS\n");
    return 0;
}
