#!/bin/sh
# Build the library sources of the current tree plus demo.c into a temporary
# directory and run the demo.  Invoke from the worktree root.
set -e
ROOT=$(pwd)
HERE=$(cd "$(dirname "$0")" && pwd)
TMP=$(mktemp -d /tmp/c06_demo.XXXXXX)
trap 'rm -rf "$TMP"' EXIT
SRCS=""
for f in "$ROOT"/src/*.c; do
    case "$f" in
        *backend_win.c|*crc32c_arm_neon.c|*crc32c_intel_sse4.c|*crc32c_sw.c) ;;
        *) SRCS="$SRCS $f" ;;
    esac
done
cc -O1 -g -std=gnu11 -I"$ROOT/include" -I"$ROOT/include_prv" -DJLS_OPTIMIZE_CRC_DISABLE=1 \
    -o "$TMP/demo" "$HERE/demo.c" $SRCS -lm -lpthread -ldl
set +e
timeout 300 "$TMP/demo" "$TMP/demo.jls"
rc=$?
echo "demo exit code: $rc"
exit $rc
