#include <sys/wait.h>

static const struct jls_source_def_s SRC1 = {.source_id = 1, .name = "s1", .vendor = "v", .model = "m", .version = "1", .serial_number = "sn1"};
static const struct jls_source_def_s SRC3 = {.source_id = 3, .name = "s3", .vendor = "v3", .model = "m3", .version = "3", .serial_number = "sn3"};

static struct jls_signal_def_s mk(uint16_t id, uint16_t src, uint32_t dt, const char * name) {
    struct jls_signal_def_s s;
    memset(&s, 0, sizeof(s));
    s.signal_id = id; s.source_id = src; s.signal_type = JLS_SIGNAL_TYPE_FSR; s.data_type = dt;
    s.sample_rate = 100000; s.samples_per_data = 1000; s.sample_decimate_factor = 100;
    s.entries_per_summary = 200; s.summary_decimate_factor = 100;
    s.annotation_decimate_factor = 100; s.utc_decimate_factor = 100;
    s.name = name; s.units = "A";
    return s;
}

static void gen(const char * path, int variant, int do_close) {
    struct jls_wr_s * wr = NULL;
    if (jls_wr_open(&wr, path)) { exit(2); }
    jls_wr_source_def(wr, &SRC1);
    jls_wr_source_def(wr, &SRC3);
    struct jls_signal_def_s s5 = mk(5, 3, JLS_DATATYPE_F32, "f32");
    struct jls_signal_def_s s6 = mk(6, 1, JLS_DATATYPE_U8, "u8");
    struct jls_signal_def_s s7 = mk(7, 1, JLS_DATATYPE_U1, "u1");
    struct jls_signal_def_s s8 = mk(8, 3, JLS_DATATYPE_I16, "i16");
    struct jls_signal_def_s s9 = mk(9, 3, JLS_DATATYPE_F64, "f64");
    struct jls_signal_def_s s10 = mk(10, 1, JLS_DATATYPE_U4, "u4");
    struct jls_signal_def_s v11 = mk(11, 1, JLS_DATATYPE_F32, "vsr");
    v11.signal_type = JLS_SIGNAL_TYPE_VSR; v11.sample_rate = 0;
    jls_wr_signal_def(wr, &s5);
    jls_wr_signal_def(wr, &s6);
    jls_wr_signal_def(wr, &s7);
    jls_wr_signal_def(wr, &s8);
    jls_wr_signal_def(wr, &s9);
    jls_wr_signal_def(wr, &s10);
    jls_wr_signal_def(wr, &v11);
    if (variant & 1) {
        jls_wr_fsr_omit_data(wr, 5, 1);
    }
    int64_t off5 = (variant & 2) ? 123000 : 0;
    int64_t off8 = (variant & 2) ? 777 : 0;
    const int W = 937;
    const int N = (variant & 4) ? 700 : 120;
    float * f = malloc(sizeof(float) * W);
    uint8_t * u8 = malloc(W);
    uint8_t * u1 = malloc(W);
    int16_t * i16 = malloc(sizeof(int16_t) * W);
    double * f64 = malloc(sizeof(double) * W);
    uint8_t * big = malloc(200000);
    for (int i = 0; i < 200000; ++i) { big[i] = (uint8_t) (i * 7); }
    static const uint8_t ud[] = {1, 2, 3, 4, 5, 6, 7};
    for (int k = 0; k < N; ++k) {
        int64_t sid = (int64_t) k * W;
        for (int i = 0; i < W; ++i) {
            int64_t j = sid + i;
            f[i] = (float) ((j % 1000) - 500) * 0.01f;
            u8[i] = ((variant & 8) && (j > 5000) && (j < 60000)) ? 5 : (uint8_t) (j / 3);
            i16[i] = (int16_t) (j * 13);
            f64[i] = (double) j * 0.5;
        }
        // u1: constant 1 in a range, else pattern
        memset(u1, 0, W);
        for (int i = 0; i < W; ++i) {
            int64_t j = sid + i;
            int bit = ((variant & 8) && (j > 10000) && (j < 50000)) ? 1 : (int) ((j / 5) & 1);
            // packed relative to this call: only valid when sid*1 bits is byte aligned; W=937 not aligned.
            u1[i / 8] |= (uint8_t) (bit << (i % 8));
        }
        jls_wr_fsr(wr, 5, off5 + sid, f, W);
        jls_wr_fsr(wr, 6, sid, u8, W);
        jls_wr_fsr(wr, 7, sid, u1, W);
        jls_wr_fsr(wr, 8, off8 + sid, i16, W);
        jls_wr_fsr(wr, 9, sid, f64, W);
        jls_wr_fsr(wr, 10, sid, u8, W);  // u4: W samples -> uses first W/2 bytes
        jls_wr_utc(wr, 5, off5 + sid, 1000000000LL + sid * 10000);
        if ((k % 3) == 0) {
            jls_wr_utc(wr, 8, off8 + sid, 2000000000LL + sid * 10000);
        }
        if ((k % 4) == 0) {
            jls_wr_annotation(wr, 5, off5 + sid, 1.0f + k, JLS_ANNOTATION_TYPE_TEXT, (uint8_t) k, JLS_STORAGE_TYPE_STRING, (const uint8_t *) "hello", 0);
            jls_wr_annotation(wr, 11, sid * 1000, NAN, JLS_ANNOTATION_TYPE_USER, 1, JLS_STORAGE_TYPE_BINARY, ud, sizeof(ud));
            jls_wr_annotation(wr, 0, sid * 1000, 2.0f, JLS_ANNOTATION_TYPE_VERTICAL_MARKER, 2, JLS_STORAGE_TYPE_STRING, (const uint8_t *) "1a", 0);
        }
        if ((k % 10) == 1) {
            jls_wr_user_data(wr, (uint16_t) (0x100 + k), JLS_STORAGE_TYPE_BINARY, ud, sizeof(ud));
            jls_wr_user_data(wr, (uint16_t) (0x200 + k), JLS_STORAGE_TYPE_JSON, (const uint8_t *) "{\"a\": 1}", 0);
        }
        if ((k % 50) == 7) {
            jls_wr_user_data(wr, 0x0abc, JLS_STORAGE_TYPE_BINARY, big, 200000);
            jls_wr_annotation(wr, 6, sid, 0.0f, JLS_ANNOTATION_TYPE_USER, 0, JLS_STORAGE_TYPE_BINARY, big, 150001);
        }
    }
    if (do_close) {
        jls_wr_close(wr);
    } else {
        jls_wr_flush(wr);
        _exit(0);
    }
}

static int copy_bytes(const char * a, const char * b) {
    FILE * fa = fopen(a, "rb"); FILE * fb = fopen(b, "wb");
    if (!fa || !fb) { return 1; }
    char buf[65536]; size_t n;
    while ((n = fread(buf, 1, sizeof(buf), fa)) > 0) { fwrite(buf, 1, n, fb); }
    fclose(fa); fclose(fb);
    return 0;
}

int main(void) {
    // {variant, closed}: variant bit0 = jls_wr_fsr_omit_data on the f32 signal, bit3 = constant runs in u8/u1 signals
    static const int cases[][2] = {{8, 1}, {1, 1}, {0, 0}};
    int total = 0;
    for (size_t c = 0; c < sizeof(cases) / sizeof(cases[0]); ++c) {
        int variant = cases[c][0];
        int closed = cases[c][1];
        const char * src = "x_src.jls"; const char * ref = "x_ref.jls"; const char * dst = "x_dst.jls";
        remove(src); remove(ref); remove(dst);
        if (closed) {
            gen(src, variant, 1);
        } else {
            pid_t p = fork();
            if (p == 0) { gen(src, variant, 0); _exit(0); }
            int st; waitpid(p, &st, 0);
        }
        copy_bytes(src, ref);
        int32_t rc = jls_copy(src, dst, NULL, NULL, NULL, NULL);
        printf("variant %d closed %d: copy rc %d\n", variant, closed, rc);
        int f = rc ? 1 : compare_files(ref, dst);
        printf("  -> %d mismatches\n", f);
        total += f;
    }
    remove("x_src.jls"); remove("x_ref.jls"); remove("x_dst.jls");
    return total ? 1 : 0;
}
