
// ---------------------------------------------------------------------------
// Demo: copy a file that holds several FSR signals of different data types and
// chunking parameters, with annotations / UTC / user data interleaved.  One
// signal asks for samples_per_data = 1500 with entries_per_summary = 200.
// The file is copied once closed and once left unclosed (writer process exits
// without jls_wr_close).  Everything the reader can see must be the same in
// the original and the copy.
// ---------------------------------------------------------------------------

static const struct jls_source_def_s SRC1 = {.source_id = 1, .name = "s1", .vendor = "v", .model = "m", .version = "1", .serial_number = "sn1"};
static const struct jls_source_def_s SRC3 = {.source_id = 3, .name = "s3", .vendor = "v3", .model = "m3", .version = "3", .serial_number = "sn3"};

static struct jls_signal_def_s mk(uint16_t id, uint16_t src, uint32_t dt, const char * name) {
    struct jls_signal_def_s s;
    memset(&s, 0, sizeof(s));
    s.signal_id = id; s.source_id = src; s.signal_type = JLS_SIGNAL_TYPE_FSR; s.data_type = dt;
    s.sample_rate = 100000; s.samples_per_data = 1000; s.sample_decimate_factor = 100;
    s.entries_per_summary = 200; s.summary_decimate_factor = 100;
    s.annotation_decimate_factor = 100; s.utc_decimate_factor = 100;
    s.name = name; s.units = "A";
    return s;
}

#include <sys/wait.h>
#define CHK(x) do { int32_t rc__ = (x); if (rc__) { printf("FAILED %s -> %d\n", #x, (int) rc__); exit(2); } } while (0)

static void gen(const char * path, int do_close) {
    struct jls_wr_s * wr = NULL;
    CHK(jls_wr_open(&wr, path));
    CHK(jls_wr_source_def(wr, &SRC1));
    CHK(jls_wr_source_def(wr, &SRC3));
    struct jls_signal_def_s s5 = mk(5, 3, JLS_DATATYPE_F32, "f32");
    struct jls_signal_def_s s6 = mk(6, 1, JLS_DATATYPE_U8, "u8");
    struct jls_signal_def_s s7 = mk(7, 1, JLS_DATATYPE_U1, "u1");
    struct jls_signal_def_s s8 = mk(8, 3, JLS_DATATYPE_I16, "i16");
    struct jls_signal_def_s s10 = mk(10, 1, JLS_DATATYPE_U4, "u4");
    s5.samples_per_data = 1500;     // 15 summary entries per data chunk
    s8.samples_per_data = 2000;
    CHK(jls_wr_signal_def(wr, &s5));
    CHK(jls_wr_signal_def(wr, &s6));
    CHK(jls_wr_signal_def(wr, &s7));
    CHK(jls_wr_signal_def(wr, &s8));
    CHK(jls_wr_signal_def(wr, &s10));
    const int W = 937;      // samples per write call; 120 * 937 = 112440 samples in total
    const int N = 120;
    float f[937]; uint8_t u8[937]; uint8_t u1[937]; int16_t i16[937];
    static const uint8_t ud[] = {1, 2, 3, 4, 5, 6, 7};
    for (int k = 0; k < N; ++k) {
        int64_t sid = (int64_t) k * W;
        memset(u1, 0, sizeof(u1));
        for (int i = 0; i < W; ++i) {
            int64_t j = sid + i;
            f[i] = (float) ((j % 1000) - 500) * 0.01f;
            u8[i] = (uint8_t) (j / 3);
            i16[i] = (int16_t) (j * 13);
            u1[i / 8] |= (uint8_t) (((j / 5) & 1) << (i % 8));
        }
        CHK(jls_wr_fsr(wr, 5, 1000 + sid, f, W));
        CHK(jls_wr_fsr(wr, 6, sid, u8, W));
        CHK(jls_wr_fsr(wr, 8, sid, i16, W));
        CHK(jls_wr_fsr(wr, 7, sid, u1, W));
        CHK(jls_wr_fsr(wr, 10, sid, u8, W));
        if (do_close) {
            CHK(jls_wr_utc(wr, 5, 1000 + sid, 1000000000LL + sid * 10000));
        }
        if ((k % 4) == 0) {
            CHK(jls_wr_annotation(wr, 5, 1000 + sid, 1.0f + k, JLS_ANNOTATION_TYPE_TEXT, (uint8_t) k,
                                  JLS_STORAGE_TYPE_STRING, (const uint8_t *) "hello", 0));
            CHK(jls_wr_annotation(wr, 7, sid, NAN, JLS_ANNOTATION_TYPE_USER, 1,
                                  JLS_STORAGE_TYPE_BINARY, ud, sizeof(ud)));
        }
        if ((k % 10) == 1) {
            CHK(jls_wr_user_data(wr, (uint16_t) (0x100 + k), JLS_STORAGE_TYPE_BINARY, ud, sizeof(ud)));
            CHK(jls_wr_user_data(wr, (uint16_t) (0x200 + k), JLS_STORAGE_TYPE_JSON, (const uint8_t *) "{\"a\": 1}", 0));
        }
    }
    if (do_close) {
        CHK(jls_wr_close(wr));
    } else {
        CHK(jls_wr_flush(wr));
        _exit(0);   // left unclosed
    }
}

static int copy_bytes(const char * a, const char * b) {
    FILE * fa = fopen(a, "rb");
    FILE * fb = fopen(b, "wb");
    if (!fa || !fb) { return 1; }
    char buf[65536];
    size_t n;
    while ((n = fread(buf, 1, sizeof(buf), fa)) > 0) { fwrite(buf, 1, n, fb); }
    fclose(fa);
    fclose(fb);
    return 0;
}

int main(void) {
    const char * src = "demo_src.jls";
    const char * ref = "demo_ref.jls";   // byte copy of src: the reader repairs an unclosed file in place
    const char * dst = "demo_dst.jls";
    int total = 0;
    for (int do_close = 1; do_close >= 0; --do_close) {
        remove(src); remove(ref); remove(dst);
        if (do_close) {
            gen(src, 1);
        } else {
            pid_t p = fork();
            if (p == 0) { gen(src, 0); _exit(0); }
            int st = 0;
            waitpid(p, &st, 0);
            if (!WIFEXITED(st) || WEXITSTATUS(st)) { printf("generator failed\n"); return 2; }
        }
        if (copy_bytes(src, ref)) { printf("byte copy failed\n"); return 2; }
        int32_t rc = jls_copy(src, dst, NULL, NULL, NULL, NULL);
        if (rc) {
            printf("jls_copy failed: %d\n", (int) rc);
            return 1;
        }
        int mismatches = compare_files(ref, dst);
        printf("%s original: %d mismatches between original and copy\n", do_close ? "closed" : "unclosed", mismatches);
        total += mismatches;
    }
    remove(src); remove(ref); remove(dst);
    return total ? 1 : 0;
}
