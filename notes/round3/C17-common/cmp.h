// Shared helper: compare everything the reader can see in two JLS files.
#include "jls/reader.h"
#include "jls/writer.h"
#include "jls/copy.h"
#include "jls/format.h"
#include "jls/ec.h"
#include <stdio.h>
#include <stdlib.h>
#include <string.h>
#include <stdint.h>
#include <math.h>
#include <unistd.h>

static int fails_ = 0;
#define FAIL(...) do { printf("MISMATCH: " __VA_ARGS__); printf("\n"); ++fails_; } while (0)

static int str_eq(const char * a, const char * b) {
    if (!a) { a = ""; }
    if (!b) { b = ""; }
    return 0 == strcmp(a, b);
}

struct rec_s {
    size_t count;
    size_t size;
    size_t alloc;
    uint8_t * mem;
};

static void rec_add(struct rec_s * r, const void * p, size_t sz) {
    if (r->size + sz + 8 > r->alloc) {
        r->alloc = (r->size + sz + 8) * 2;
        r->mem = realloc(r->mem, r->alloc);
    }
    uint64_t sz64 = sz;
    memcpy(r->mem + r->size, &sz64, 8);
    r->size += 8;
    if (sz) {
        memcpy(r->mem + r->size, p, sz);
    }
    r->size += sz;
    r->count++;
}

static int32_t anno_cbk(void * user_data, const struct jls_annotation_s * a) {
    struct rec_s * r = (struct rec_s *) user_data;
    struct { int64_t ts; uint8_t t, s, g; float y; uint32_t sz; } h;
    memset(&h, 0, sizeof(h));
    h.ts = a->timestamp; h.t = a->annotation_type; h.s = a->storage_type; h.g = a->group_id;
    h.y = a->y; h.sz = a->data_size;
    rec_add(r, &h, sizeof(h));
    rec_add(r, a->data, a->data_size);
    return 0;
}

static int32_t utc_cbk(void * user_data, const struct jls_utc_summary_entry_s * utc, uint32_t size) {
    struct rec_s * r = (struct rec_s *) user_data;
    for (uint32_t i = 0; i < size; ++i) {
        rec_add(r, &utc[i], sizeof(utc[i]));
    }
    return 0;
}

static int32_t ud_cbk(void * user_data, uint16_t chunk_meta, enum jls_storage_type_e storage_type,
                      uint8_t * data, uint32_t data_size) {
    struct rec_s * r = (struct rec_s *) user_data;
    uint32_t h[2] = {chunk_meta, (uint32_t) storage_type};
    rec_add(r, h, sizeof(h));
    rec_add(r, data, data_size);
    return 0;
}

static void rec_cmp(const char * what, int sig, struct rec_s * a, struct rec_s * b) {
    if (a->count != b->count) {
        FAIL("%s signal %d: count %zu != %zu", what, sig, a->count, b->count);
    } else if ((a->size != b->size) || (a->size && memcmp(a->mem, b->mem, a->size))) {
        FAIL("%s signal %d: content differs", what, sig);
    }
    free(a->mem); free(b->mem);
}

static int compare_files(const char * pa, const char * pb) {
    struct jls_rd_s * a = NULL;
    struct jls_rd_s * b = NULL;
    int32_t rc;
    fails_ = 0;
    rc = jls_rd_open(&a, pa);
    if (rc) { printf("open %s failed %d\n", pa, rc); return 1; }
    rc = jls_rd_open(&b, pb);
    if (rc) { printf("open %s failed %d\n", pb, rc); jls_rd_close(a); return 1; }

    struct jls_source_def_s * sa; struct jls_source_def_s * sb;
    uint16_t na = 0, nb = 0;
    jls_rd_sources(a, &sa, &na);
    jls_rd_sources(b, &sb, &nb);
    if (na != nb) {
        FAIL("source count %d != %d", na, nb);
    } else {
        for (uint16_t i = 0; i < na; ++i) {
            if ((sa[i].source_id != sb[i].source_id) || !str_eq(sa[i].name, sb[i].name)
                    || !str_eq(sa[i].vendor, sb[i].vendor) || !str_eq(sa[i].model, sb[i].model)
                    || !str_eq(sa[i].version, sb[i].version) || !str_eq(sa[i].serial_number, sb[i].serial_number)) {
                FAIL("source %d differs", (int) sa[i].source_id);
            }
        }
    }

    struct jls_signal_def_s * ga; struct jls_signal_def_s * gb;
    jls_rd_signals(a, &ga, &na);
    jls_rd_signals(b, &gb, &nb);
    if (na != nb) {
        FAIL("signal count %d != %d", na, nb);
        goto done;
    }
    for (uint16_t i = 0; i < na; ++i) {
        struct jls_signal_def_s * x = &ga[i];
        struct jls_signal_def_s * y = &gb[i];
        int sig = x->signal_id;
        if ((x->signal_id != y->signal_id) || (x->source_id != y->source_id) || (x->signal_type != y->signal_type)
                || (x->data_type != y->data_type) || (x->sample_rate != y->sample_rate)
                || (x->samples_per_data != y->samples_per_data)
                || (x->sample_decimate_factor != y->sample_decimate_factor)
                || (x->entries_per_summary != y->entries_per_summary)
                || (x->summary_decimate_factor != y->summary_decimate_factor)
                || (x->annotation_decimate_factor != y->annotation_decimate_factor)
                || (x->utc_decimate_factor != y->utc_decimate_factor)
                || (x->sample_id_offset != y->sample_id_offset)
                || !str_eq(x->name, y->name) || !str_eq(x->units, y->units)) {
            FAIL("signal def %d differs: samples_per_data %u/%u sample_decimate %u/%u entries_per_summary %u/%u "
                 "summary_decimate %u/%u sample_id_offset %lld/%lld", sig,
                 (unsigned) x->samples_per_data, (unsigned) y->samples_per_data,
                 (unsigned) x->sample_decimate_factor, (unsigned) y->sample_decimate_factor,
                 (unsigned) x->entries_per_summary, (unsigned) y->entries_per_summary,
                 (unsigned) x->summary_decimate_factor, (unsigned) y->summary_decimate_factor,
                 (long long) x->sample_id_offset, (long long) y->sample_id_offset);
            continue;
        }
        // annotations
        {
            struct rec_s ra = {0, 0, 0, NULL}, rb = {0, 0, 0, NULL};
            int32_t r1 = jls_rd_annotations(a, x->signal_id, INT64_MIN, anno_cbk, &ra);
            int32_t r2 = jls_rd_annotations(b, x->signal_id, INT64_MIN, anno_cbk, &rb);
            if (r1 != r2) { FAIL("annotations signal %d rc %d != %d", sig, r1, r2); }
            rec_cmp("annotations", sig, &ra, &rb);
        }
        if (x->signal_type != JLS_SIGNAL_TYPE_FSR) {
            continue;
        }
        {
            struct rec_s ra = {0, 0, 0, NULL}, rb = {0, 0, 0, NULL};
            int32_t r1 = jls_rd_utc(a, x->signal_id, INT64_MIN, utc_cbk, &ra);
            int32_t r2 = jls_rd_utc(b, x->signal_id, INT64_MIN, utc_cbk, &rb);
            if (r1 != r2) { FAIL("utc signal %d rc %d != %d", sig, r1, r2); }
            rec_cmp("utc", sig, &ra, &rb);
        }
        int64_t la = -1, lb = -1;
        int32_t r1 = jls_rd_fsr_length(a, x->signal_id, &la);
        int32_t r2 = jls_rd_fsr_length(b, x->signal_id, &lb);
        if ((r1 != r2) || (la != lb)) {
            FAIL("fsr length signal %d: rc %d/%d len %lld != %lld", sig, r1, r2, (long long) la, (long long) lb);
            continue;
        }
        if (la <= 0) {
            continue;
        }
        size_t bits = jls_datatype_parse_size(x->data_type);
        size_t sz = (size_t) ((la * bits + 7) / 8) + 16;
        uint8_t * da = calloc(1, sz);
        uint8_t * db = calloc(1, sz);
        r1 = jls_rd_fsr(a, x->signal_id, 0, da, la);
        r2 = jls_rd_fsr(b, x->signal_id, 0, db, la);
        if (r1 != r2) {
            FAIL("fsr read signal %d rc %d != %d", sig, r1, r2);
        } else if (!r1 && memcmp(da, db, (size_t) ((la * bits) / 8))) {
            size_t k = 0;
            while (da[k] == db[k]) { ++k; }
            FAIL("fsr samples signal %d differ at byte %zu (sample %zu): %02x vs %02x", sig, k, (k * 8) / bits, da[k], db[k]);
        }
        free(da); free(db);
        // statistics at several increments
        int64_t incrs[] = {1, 3, 10, 100, 1000, 7777, la};
        for (size_t k = 0; k < sizeof(incrs) / sizeof(incrs[0]); ++k) {
            int64_t incr = incrs[k];
            int64_t n = la / incr;
            if (n <= 0) { continue; }
            if (n > 2000) { n = 2000; }
            double * ta = calloc((size_t) n * 4, sizeof(double));
            double * tb = calloc((size_t) n * 4, sizeof(double));
            r1 = jls_rd_fsr_statistics(a, x->signal_id, 0, incr, ta, n);
            r2 = jls_rd_fsr_statistics(b, x->signal_id, 0, incr, tb, n);
            if (r1 != r2) {
                FAIL("statistics signal %d incr %lld rc %d != %d", sig, (long long) incr, r1, r2);
            } else if (!r1) {
                for (int64_t j = 0; j < n * 4; ++j) {
                    double u = ta[j], v = tb[j];
                    if (isnan(u) && isnan(v)) { continue; }
                    double tol = 1e-6 * (fabs(u) + fabs(v)) + 1e-9;
                    if (!(fabs(u - v) <= tol)) {
                        FAIL("statistics signal %d incr %lld entry %lld field %d: %g != %g", sig,
                             (long long) incr, (long long) (j / 4), (int) (j % 4), u, v);
                        break;
                    }
                }
            }
            free(ta); free(tb);
        }
    }
    {
        struct rec_s ra = {0, 0, 0, NULL}, rb = {0, 0, 0, NULL};
        int32_t r1 = jls_rd_user_data(a, ud_cbk, &ra);
        int32_t r2 = jls_rd_user_data(b, ud_cbk, &rb);
        if (r1 != r2) { FAIL("user_data rc %d != %d", r1, r2); }
        rec_cmp("user_data", -1, &ra, &rb);
    }
done:
    jls_rd_close(a);
    jls_rd_close(b);
    return fails_;
}
