
// ---------------------------------------------------------------------------
// Demo: copy a closed file that holds several FSR signals of different data
// types, with annotations / UTC / user data interleaved.  The sub-byte signals
// (u1, u4) end on a sample count that is not a whole number of bytes.
// Everything the reader can see must be the same in the original and the copy.
// ---------------------------------------------------------------------------

static const struct jls_source_def_s SRC1 = {.source_id = 1, .name = "s1", .vendor = "v", .model = "m", .version = "1", .serial_number = "sn1"};
static const struct jls_source_def_s SRC3 = {.source_id = 3, .name = "s3", .vendor = "v3", .model = "m3", .version = "3", .serial_number = "sn3"};

static struct jls_signal_def_s mk(uint16_t id, uint16_t src, uint32_t dt, const char * name) {
    struct jls_signal_def_s s;
    memset(&s, 0, sizeof(s));
    s.signal_id = id; s.source_id = src; s.signal_type = JLS_SIGNAL_TYPE_FSR; s.data_type = dt;
    s.sample_rate = 100000; s.samples_per_data = 1000; s.sample_decimate_factor = 100;
    s.entries_per_summary = 200; s.summary_decimate_factor = 100;
    s.annotation_decimate_factor = 100; s.utc_decimate_factor = 100;
    s.name = name; s.units = "A";
    return s;
}

#define CHK(x) do { int32_t rc__ = (x); if (rc__) { printf("FAILED %s -> %d\n", #x, (int) rc__); exit(2); } } while (0)

static void gen(const char * path) {
    struct jls_wr_s * wr = NULL;
    CHK(jls_wr_open(&wr, path));
    CHK(jls_wr_source_def(wr, &SRC1));
    CHK(jls_wr_source_def(wr, &SRC3));
    struct jls_signal_def_s s5 = mk(5, 3, JLS_DATATYPE_F32, "f32");
    struct jls_signal_def_s s6 = mk(6, 1, JLS_DATATYPE_U8, "u8");
    struct jls_signal_def_s s7 = mk(7, 1, JLS_DATATYPE_U1, "u1");
    struct jls_signal_def_s s8 = mk(8, 3, JLS_DATATYPE_I16, "i16");
    struct jls_signal_def_s s10 = mk(10, 1, JLS_DATATYPE_U4, "u4");
    CHK(jls_wr_signal_def(wr, &s5));
    CHK(jls_wr_signal_def(wr, &s6));
    CHK(jls_wr_signal_def(wr, &s7));
    CHK(jls_wr_signal_def(wr, &s8));
    CHK(jls_wr_signal_def(wr, &s10));
    const int W = 937;      // samples per write call; 120 * 937 = 112440 samples in total
    const int N = 120;
    float f[937]; uint8_t u8[937]; uint8_t u1[937]; int16_t i16[937];
    static const uint8_t ud[] = {1, 2, 3, 4, 5, 6, 7};
    for (int k = 0; k < N; ++k) {
        int64_t sid = (int64_t) k * W;
        memset(u1, 0, sizeof(u1));
        for (int i = 0; i < W; ++i) {
            int64_t j = sid + i;
            f[i] = (float) ((j % 1000) - 500) * 0.01f;
            u8[i] = (uint8_t) (j / 3);
            i16[i] = (int16_t) (j * 13);
            u1[i / 8] |= (uint8_t) (((j / 5) & 1) << (i % 8));
        }
        CHK(jls_wr_fsr(wr, 5, 1000 + sid, f, W));
        CHK(jls_wr_fsr(wr, 6, sid, u8, W));
        CHK(jls_wr_fsr(wr, 8, sid, i16, W));
        // u1: 937 samples per call, except the last call: 112435 samples = 112 blocks + 435 samples (54 bytes + 3 bits)
        CHK(jls_wr_fsr(wr, 7, sid, u1, (k == (N - 1)) ? (W - 5) : W));
        // u4: 112439 samples = 112 blocks + 439 samples (219 bytes + 1 nibble)
        CHK(jls_wr_fsr(wr, 10, sid, u8, (k == (N - 1)) ? (W - 1) : W));
        CHK(jls_wr_utc(wr, 5, 1000 + sid, 1000000000LL + sid * 10000));
        if ((k % 4) == 0) {
            CHK(jls_wr_annotation(wr, 5, 1000 + sid, 1.0f + k, JLS_ANNOTATION_TYPE_TEXT, (uint8_t) k,
                                  JLS_STORAGE_TYPE_STRING, (const uint8_t *) "hello", 0));
            CHK(jls_wr_annotation(wr, 7, sid, NAN, JLS_ANNOTATION_TYPE_USER, 1,
                                  JLS_STORAGE_TYPE_BINARY, ud, sizeof(ud)));
        }
        if ((k % 10) == 1) {
            CHK(jls_wr_user_data(wr, (uint16_t) (0x100 + k), JLS_STORAGE_TYPE_BINARY, ud, sizeof(ud)));
            CHK(jls_wr_user_data(wr, (uint16_t) (0x200 + k), JLS_STORAGE_TYPE_JSON, (const uint8_t *) "{\"a\": 1}", 0));
        }
    }
    CHK(jls_wr_close(wr));
}

int main(void) {
    const char * src = "demo_src.jls";
    const char * dst = "demo_dst.jls";
    remove(src); remove(dst);
    gen(src);
    int32_t rc = jls_copy(src, dst, NULL, NULL, NULL, NULL);
    if (rc) {
        printf("jls_copy failed: %d\n", (int) rc);
        return 1;
    }
    int mismatches = compare_files(src, dst);
    printf("%d mismatches between original and copy\n", mismatches);
    remove(src); remove(dst);
    return mismatches ? 1 : 0;
}
