// FINDING on the UNMODIFIED library: one failed backend write (disk full),
// then the application carries on.
//
// The program interposes write() and checks every (offset, bytes) write that
// the library sends to the JLS file against the write-once rules (see
// c14_on_write).  Exit 0 = no violation, exit 1 = violation.

#define _GNU_SOURCE
#include "jls/writer.h"
#include "jls/format.h"
#include "jls/ec.h"
#include <errno.h>
#include <pthread.h>
#include <stdint.h>
#include <stdio.h>
#include <stdlib.h>
#include <string.h>
#include <sys/syscall.h>
#include <unistd.h>

// ---------------------------------------------------------------- checker
static pthread_mutex_t c14_mutex = PTHREAD_MUTEX_INITIALIZER;
static uint8_t * c14_shadow = NULL;      // copy of the file content
static int64_t c14_end = 0;              // file length so far
static int64_t * c14_hdrs = NULL;        // offsets of chunk headers (first written at EOF)
static size_t c14_hdrs_count = 0;
static int64_t c14_remaining = 0;        // on-disk payload bytes still expected for the chunk at EOF
static int c14_violations = 0;
static int64_t c14_writes = 0;
static int64_t c14_file_hdr_rewrite_idx = -1;

static uint32_t c14_on_disk(uint32_t payload_length) {
    if (!payload_length) {
        return 0;
    }
    uint32_t pad = (payload_length + 4) & 7;
    if (pad) {
        pad = 8 - pad;
    }
    return payload_length + pad + 4;
}

static int c14_is_hdr(int64_t offset) {
    for (size_t i = 0; i < c14_hdrs_count; ++i) {
        if (c14_hdrs[i] == offset) {
            return 1;
        }
    }
    return 0;
}

static void c14_violation(const char * what, int64_t off, size_t n) {
    ++c14_violations;
    fprintf(stderr, "C14 VIOLATION: %s (write #%lld, offset %lld, %zu bytes, file end %lld)\n",
            what, (long long) c14_writes, (long long) off, n, (long long) c14_end);
}

static void c14_on_write(int64_t off, const uint8_t * b, size_t n) {
    ++c14_writes;
    if (c14_file_hdr_rewrite_idx >= 0) {
        // the file header was rewritten, and the writer still writes: that was not the close
        c14_violation("file header rewritten before close", 0, 32);
        c14_file_hdr_rewrite_idx = -1;
    }
    if (off > c14_end) {
        c14_violation("write beyond the end of file leaves a hole", off, n);
    } else if (off == c14_end) {
        // append
        if ((off != 0) && (c14_remaining == 0)) {
            if (n != 32) {
                c14_violation("append that is not a chunk header where a chunk header is expected", off, n);
            } else {
                struct jls_chunk_header_s h;
                memcpy(&h, b, sizeof(h));
                c14_hdrs = realloc(c14_hdrs, (c14_hdrs_count + 1) * sizeof(int64_t));
                c14_hdrs[c14_hdrs_count++] = off;
                c14_remaining = c14_on_disk(h.payload_length);
            }
        } else if (off != 0) {
            c14_remaining -= (int64_t) n;
            if (c14_remaining < 0) {
                c14_violation("payload longer than its header says", off, n);
                c14_remaining = 0;
            }
        }
    } else if ((off + (int64_t) n) > c14_end) {
        c14_violation("write straddles the end of file", off, n);
    } else if ((off == 0) && (n == 32)) {
        c14_file_hdr_rewrite_idx = c14_writes;  // file header: allowed as the last write only
    } else if ((n == 32) && c14_is_hdr(off)) {
        if (0 != memcmp(b + 16, c14_shadow + off + 16, 12)) {
            c14_violation("chunk header rewritten with different tag/meta/payload lengths", off, n);
            if (off == c14_hdrs[c14_hdrs_count - 1]) {  // the chunk at EOF: follow the new header
                struct jls_chunk_header_s h;
                memcpy(&h, b, sizeof(h));
                c14_remaining = (int64_t) c14_on_disk(h.payload_length) - (c14_end - off - 32);
            }
        }
    } else if ((off >= 32) && c14_is_hdr(off - 32)) {
        struct jls_chunk_header_s h;
        memcpy(&h, c14_shadow + off - 32, sizeof(h));
        int is_head = (h.tag >= 0x20) && (h.tag < 0x40) && ((h.tag & 7) == JLS_TRACK_CHUNK_HEAD);
        if (!is_head) {
            c14_violation("payload of a chunk that is not a track head rewritten", off, n);
        } else if (n != c14_on_disk(h.payload_length)) {
            c14_violation("track head payload rewritten with another size", off, n);
        } else {
            for (uint32_t i = 0; (i + 8) <= h.payload_length; i += 8) {
                int64_t v_old;
                int64_t v_new;
                memcpy(&v_old, c14_shadow + off + i, 8);
                memcpy(&v_new, b + i, 8);
                if (v_old == v_new) {
                    continue;
                } else if (v_old != 0) {
                    c14_violation("track head entry changed after it was set", off, n);
                } else if (!c14_is_hdr(v_new)) {
                    c14_violation("track head entry set to something that is not a chunk", off, n);
                }
            }
        }
    } else {
        c14_violation("stored bytes rewritten in place", off, n);
    }

    // apply to the shadow copy
    int64_t end = off + (int64_t) n;
    if (end > c14_end) {
        c14_shadow = realloc(c14_shadow, (size_t) end);
        if (off > c14_end) {
            memset(c14_shadow + c14_end, 0, (size_t) (off - c14_end));
        }
        c14_end = end;
    }
    memcpy(c14_shadow + off, b, n);
}

static volatile int fail_armed = 0;   // fail the next large (payload) write once

ssize_t write(int fd, const void * buf, size_t n) {
    if (fd > 2) {
        if (fail_armed && (n >= 1000)) {
            fail_armed = 0;
            errno = ENOSPC;
            return -1;
        }
        pthread_mutex_lock(&c14_mutex);
        int64_t off = (int64_t) syscall(SYS_lseek, fd, (off_t) 0, SEEK_CUR);
        c14_on_write(off, (const uint8_t *) buf, n);
        ssize_t rv = (ssize_t) syscall(SYS_write, fd, buf, n);
        pthread_mutex_unlock(&c14_mutex);
        return rv;
    }
    return (ssize_t) syscall(SYS_write, fd, buf, n);
}

static int c14_result(void) {
    fprintf(stderr, "C14 check: %lld writes, %zu chunks, %d violation(s)\n",
            (long long) c14_writes, c14_hdrs_count, c14_violations);
    return c14_violations ? 1 : 0;
}

// ---------------------------------------------------------------- program
#define REQUIRE(x) do { if (!(x)) { fprintf(stderr, "unexpected: %s (line %d)\n", #x, __LINE__); exit(2); } } while (0)

static const struct jls_source_def_s SOURCE_1 = {
        .source_id = 1, .name = "src", .vendor = "v", .model = "m", .version = "1", .serial_number = "s",
};

static const struct jls_signal_def_s SIGNAL_1 = {
        .signal_id = 1, .source_id = 1, .signal_type = JLS_SIGNAL_TYPE_FSR, .data_type = JLS_DATATYPE_F32,
        .sample_rate = 1000, .samples_per_data = 1000, .sample_decimate_factor = 100,
        .entries_per_summary = 200, .summary_decimate_factor = 10,
        .name = "sig", .units = "V",
};

int main(int argc, char * argv[]) {
    const char * path = (argc > 1) ? argv[1] : "c14_demo.jls";
    struct jls_wr_s * wr = NULL;
    static float data[4000];
    for (int i = 0; i < 4000; ++i) {
        data[i] = (float) (i % 97);
    }

    REQUIRE(0 == jls_wr_open(&wr, path));
    REQUIRE(0 == jls_wr_source_def(wr, &SOURCE_1));
    REQUIRE(0 == jls_wr_signal_def(wr, &SIGNAL_1));
    REQUIRE(0 == jls_wr_fsr_f32(wr, 1, 0, data, 1500));

    fail_armed = 1;   // the disk is full for one write: the data block's payload
    int32_t rc = jls_wr_fsr_f32(wr, 1, 1500, data + 1500, 1500);
    fprintf(stderr, "jls_wr_fsr_f32 with the failing write: %d\n", (int) rc);
    REQUIRE(0 != rc);

    // space was freed, the application carries on with something else
    REQUIRE(0 == jls_wr_user_data(wr, 3, JLS_STORAGE_TYPE_STRING, (const uint8_t *) "disk was full", 0));
    jls_wr_close(wr);
    remove(path);
    return c14_result();
}
