#!/bin/sh
# Build the library objects of the tree this is run from and the demo into a
# temporary directory, run the demo.  Exit code = demo result.
HERE=$(cd "$(dirname "$0")" && pwd)
ROOT=$(pwd)
TMP=$(mktemp -d) || exit 3
trap 'rm -rf "$TMP"' EXIT
CC=${CC:-cc}
CFLAGS="-O1 -g -std=gnu11 -DJLS_OPTIMIZE_CRC_DISABLE=1 -I$ROOT/include -I$ROOT/include_prv"
OBJS=""
for f in bit_shift buffer datatype copy core crc32c ec log msg_ring_buffer raw tmap reader statistics \
         threaded_writer track wr_fsr wr_ts writer backend_posix; do
    $CC $CFLAGS -c "$ROOT/src/$f.c" -o "$TMP/$f.o" || exit 3
    OBJS="$OBJS $TMP/$f.o"
done
$CC $CFLAGS "$HERE/demo.c" $OBJS -o "$TMP/demo" -lm -lpthread || exit 3
timeout 120 "$TMP/demo" "$TMP/demo.jls"
