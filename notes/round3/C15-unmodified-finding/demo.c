// Existing violation of C15 in the UNMODIFIED tree: when the final, partial
// block of a signal is omitted (on request, or automatically because it is a
// constant block of a <= 8 bit signal), the reported length is rounded down to
// a multiple of sample_decimate_factor.  The same stream with that block
// stored reports the exact length.
#include "jls/reader.h"
#include "jls/writer.h"
#include "jls/format.h"
#include <stdio.h>
#include <stdlib.h>
#include <string.h>
#include <inttypes.h>

#define CHECK(x) do { int32_t rc__ = (x); if (rc__) { \
    printf("FAIL: %s returned %d (line %d)\n", #x, (int) rc__, __LINE__); return 1; } } while (0)

static const struct jls_source_def_s SOURCE = {
    .source_id = 1, .name = "s", .vendor = "v", .model = "m", .version = "1", .serial_number = "1",
};

static struct jls_signal_def_s signal_def(uint16_t signal_id, uint32_t data_type, const char * name) {
    struct jls_signal_def_s d;
    memset(&d, 0, sizeof(d));
    d.signal_id = signal_id;
    d.source_id = 1;
    d.signal_type = JLS_SIGNAL_TYPE_FSR;
    d.data_type = data_type;
    d.sample_rate = 1000;
    d.samples_per_data = 1024;
    d.sample_decimate_factor = 64;
    d.entries_per_summary = 256;
    d.summary_decimate_factor = 16;
    d.annotation_decimate_factor = 100;
    d.utc_decimate_factor = 100;
    d.name = name;
    d.units = "";
    return d;
}

#define N (10 * 1024 + 100)

int main(int argc, char ** argv) {
    const char * path = (argc > 1) ? argv[1] : "demo_tail.jls";
    static float x[N];
    static uint8_t c[N];   // constant, except in the first block
    static uint8_t v[N];   // same, but the last sample differs so the final block is stored
    for (int64_t i = 0; i < N; ++i) {
        x[i] = (float) (i % 97);
        c[i] = (i < 1024) ? (uint8_t) i : 5;
        v[i] = c[i];
    }
    v[N - 1] = 6;
    struct jls_signal_def_s d1 = signal_def(1, JLS_DATATYPE_F32, "f32 stored");
    struct jls_signal_def_s d2 = signal_def(2, JLS_DATATYPE_F32, "f32 omitted");
    struct jls_signal_def_s d3 = signal_def(3, JLS_DATATYPE_U8, "u8 tail stored");
    struct jls_signal_def_s d4 = signal_def(4, JLS_DATATYPE_U8, "u8 tail omitted");

    struct jls_wr_s * wr = NULL;
    CHECK(jls_wr_open(&wr, path));
    CHECK(jls_wr_source_def(wr, &SOURCE));
    CHECK(jls_wr_signal_def(wr, &d1));
    CHECK(jls_wr_signal_def(wr, &d2));
    CHECK(jls_wr_signal_def(wr, &d3));
    CHECK(jls_wr_signal_def(wr, &d4));
    CHECK(jls_wr_fsr_omit_data(wr, 2, 1));
    CHECK(jls_wr_fsr_f32(wr, 1, 0, x, N));
    CHECK(jls_wr_fsr_f32(wr, 2, 0, x, N));
    CHECK(jls_wr_fsr(wr, 3, 0, v, N));
    CHECK(jls_wr_fsr(wr, 4, 0, c, N));
    CHECK(jls_wr_close(wr));

    struct jls_rd_s * rd = NULL;
    CHECK(jls_rd_open(&rd, path));
    int errors = 0;
    for (uint16_t signal_id = 1; signal_id <= 4; ++signal_id) {
        int64_t len = 0;
        CHECK(jls_rd_fsr_length(rd, signal_id, &len));
        printf("signal %d: length %" PRIi64 " (wrote %d)\n", (int) signal_id, len, N);
        if (len != N) {
            ++errors;
        }
    }
    jls_rd_close(rd);
    remove(path);
    if (errors) {
        printf("FAIL: %d signals report a changed length\n", errors);
        return 1;
    }
    printf("PASS\n");
    return 0;
}
