#!/bin/sh
# Build the library objects from the tree this is run in plus the demo, then run it.
# Usage (from the worktree root): sh seed_out/<name>/run.sh
HERE=$(cd "$(dirname "$0")" && pwd)
ROOT=$(cd "$HERE/../.." && pwd)
TMP=$(mktemp -d /tmp/jls_seed_demo.XXXXXX) || exit 99
trap 'rm -rf "$TMP"' EXIT
CC=${CC:-cc}
case "$(uname -m)" in
    x86_64|i?86) ARCH_FLAGS="-msse4.2" ;;
    *) ARCH_FLAGS="" ;;
esac
OBJS=""
for f in "$ROOT"/src/*.c; do
    b=$(basename "$f" .c)
    case "$b" in
        backend_win|crc32c_*) continue ;;  # crc32c.c includes the variant it selects
    esac
    $CC -std=gnu99 $ARCH_FLAGS -O1 -g -D__FILENAME__="\"$b.c\"" -I"$ROOT/include" -I"$ROOT/include_prv" \
        -c "$f" -o "$TMP/$b.o" || exit 98
    OBJS="$OBJS $TMP/$b.o"
done
$CC -std=gnu99 -O1 -g -I"$ROOT/include" "$HERE/demo.c" $OBJS -o "$TMP/demo" -lm -lpthread || exit 97
cd "$TMP" || exit 96
if command -v timeout >/dev/null 2>&1; then
    timeout 120 ./demo "$TMP/demo.jls"
else
    ./demo "$TMP/demo.jls"
fi
