/*
 * Observations on the UNMODIFIED library (not a seeded change):
 *  1. u8 signal whose last (partial) data block is constant (here: gap zeros
 *     followed by written zeros) -> block auto-omitted -> jls_rd_fsr_length
 *     is rounded down to a multiple of sample_decimate_factor.
 *  2. f32 signal: jls_rd_fsr_statistics served from sample data (level 0,
 *     small increment) returns mean = NaN for a window that contains gap
 *     samples and written samples, instead of treating gap samples as absent.
 */
#include "jls/writer.h"
#include "jls/reader.h"
#include "jls/format.h"
#include <math.h>
#include <stdio.h>
#include <stdlib.h>
#include <string.h>
#include <stdint.h>

#define FN "c09_existing.jls"
#define CHECK(x) do { int32_t rc__ = (x); if (rc__) { printf("FAIL %s -> %d (line %d)\n", #x, (int) rc__, __LINE__); exit(2); } } while (0)

static const struct jls_source_def_s SRC = {
    .source_id = 1, .name = "s", .vendor = "v", .model = "m", .version = "1", .serial_number = "1",
};

int main(void) {
    int bad = 0;
    struct jls_wr_s * wr = NULL;
    struct jls_rd_s * rd = NULL;
    int64_t len = 0;
    {
        struct jls_signal_def_s sig = {
            .signal_id = 1, .source_id = 1, .signal_type = JLS_SIGNAL_TYPE_FSR,
            .data_type = JLS_DATATYPE_U8, .sample_rate = 1000,
            .samples_per_data = 2048, .sample_decimate_factor = 256,
            .entries_per_summary = 64, .summary_decimate_factor = 16,
            .annotation_decimate_factor = 100, .utc_decimate_factor = 100,
            .name = "sig", .units = "",
        };
        uint8_t d[1000];
        for (int i = 0; i < 1000; ++i) { d[i] = (uint8_t) (i | 1); }
        remove(FN);
        CHECK(jls_wr_open(&wr, FN));
        CHECK(jls_wr_source_def(wr, &SRC));
        CHECK(jls_wr_signal_def(wr, &sig));
        CHECK(jls_wr_fsr(wr, 1, 0, d, 1000));
        memset(d, 0, sizeof(d));
        CHECK(jls_wr_fsr(wr, 1, 5000, d, 100));   // gap 1000..4999, then 100 zeros
        CHECK(jls_wr_close(wr));
        CHECK(jls_rd_open(&rd, FN));
        CHECK(jls_rd_fsr_length(rd, 1, &len));
        if (len != 5100) {
            printf("1. u8 length %lld, expected 5100\n", (long long) len);
            ++bad;
        }
        jls_rd_close(rd);
    }
    {
        struct jls_signal_def_s sig = {
            .signal_id = 1, .source_id = 1, .signal_type = JLS_SIGNAL_TYPE_FSR,
            .data_type = JLS_DATATYPE_F32, .sample_rate = 1000,
            .samples_per_data = 1024, .sample_decimate_factor = 128,
            .entries_per_summary = 64, .summary_decimate_factor = 16,
            .annotation_decimate_factor = 100, .utc_decimate_factor = 100,
            .name = "sig", .units = "",
        };
        static float d[4096];
        for (int i = 0; i < 4096; ++i) { d[i] = 2.5f; }
        remove(FN);
        CHECK(jls_wr_open(&wr, FN));
        CHECK(jls_wr_source_def(wr, &SRC));
        CHECK(jls_wr_signal_def(wr, &sig));
        CHECK(jls_wr_fsr_f32(wr, 1, 0, d, 1000));
        CHECK(jls_wr_fsr_f32(wr, 1, 1010, d, 3000));   // gap 1000..1009
        CHECK(jls_wr_close(wr));
        CHECK(jls_rd_open(&rd, FN));
        double st[4];
        CHECK(jls_rd_fsr_statistics(rd, 1, 990, 40, st, 1));   // 30 written samples + 10 gap samples
        if (!(fabs(st[JLS_SUMMARY_FSR_MEAN] - 2.5) < 1e-6)) {
            printf("2. f32 level-0 statistics over [990,1030): mean=%g min=%g max=%g std=%g, expected mean 2.5\n",
                   st[JLS_SUMMARY_FSR_MEAN], st[JLS_SUMMARY_FSR_MIN], st[JLS_SUMMARY_FSR_MAX], st[JLS_SUMMARY_FSR_STD]);
            ++bad;
        }
        jls_rd_close(rd);
    }
    remove(FN);
    if (bad) { printf("FAILED: %d\n", bad); return 1; }
    printf("OK\n");
    return 0;
}
