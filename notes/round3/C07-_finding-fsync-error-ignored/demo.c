/*
 * Finding on the UNMODIFIED tree: jls_twr_run ignores the return code of
 * jls_wr_flush(), so jls_twr_flush() returns 0 (success) although fsync failed,
 * i.e. the file has NOT been synced.
 * exit 1 = violation observed, exit 0 = not observed.
 */
#define _GNU_SOURCE
#include "jls/threaded_writer.h"
#include "jls/format.h"
#include <errno.h>
#include <stdio.h>
#include <unistd.h>

static volatile int g_fsync_calls = 0;

int fsync(int fd) {
    (void) fd;
    ++g_fsync_calls;
    errno = EIO;
    return -1;   // the sync fails
}

int main(int argc, char * argv[]) {
    const char * path = (argc > 1) ? argv[1] : "c07_fsync_demo.jls";
    struct jls_twr_s * wr = NULL;
    uint8_t d[16] = {0};
    alarm(60);
    if (jls_twr_open(&wr, path)) {
        return 2;
    }
    jls_twr_user_data(wr, 1, JLS_STORAGE_TYPE_BINARY, d, sizeof(d));
    int32_t rc = jls_twr_flush(wr);
    printf("fsync calls=%d (all failed), jls_twr_flush rc=%d\n", g_fsync_calls, (int) rc);
    jls_twr_close(wr);
    remove(path);
    if ((0 == rc) && g_fsync_calls) {
        printf("VIOLATION: flush reported success but the file was not synced\n");
        return 1;
    }
    return 0;
}
