#!/bin/sh
# Build the library objects from the tree this is run in (worktree root = cwd)
# plus the demo into a temporary directory, then run the demo.
set -e
HERE=$(cd "$(dirname "$0")" && pwd)
ROOT=$(pwd)
TMP=$(mktemp -d)
trap 'rm -rf "$TMP"' EXIT
CFLAGS="-std=gnu99 -O1 -g -Wall -Wextra -Wpedantic -Werror -DJLS_OPTIMIZE_CRC_DISABLE=1 -I$ROOT/include -I$ROOT/include_prv"
for f in bit_shift buffer datatype copy core crc32c ec log msg_ring_buffer raw tmap reader \
         statistics threaded_writer track wr_fsr wr_ts writer backend_posix; do
    cc $CFLAGS -c "$ROOT/src/$f.c" -o "$TMP/$f.o"
done
cc -std=gnu99 -O1 -g -Wall -I"$ROOT/include" "$HERE/demo.c" "$TMP"/*.o -o "$TMP/demo" -lm -lpthread
set +e
cd "$TMP"
timeout 120 ./demo "$TMP/demo.jls"
rc=$?
echo "demo exit code: $rc"
exit $rc
