// Shared helper: compare everything the reader can see in two JLS files.
#include "jls/reader.h"
#include "jls/writer.h"
#include "jls/copy.h"
#include "jls/format.h"
#include "jls/ec.h"
#include <stdio.h>
#include <stdlib.h>
#include <string.h>
#include <stdint.h>
#include <math.h>
#include <unistd.h>

static int fails_ = 0;
#define FAIL(...) do { printf("MISMATCH: " __VA_ARGS__); printf("\n"); ++fails_; } while (0)

static int str_eq(const char * a, const char * b) {
    if (!a) { a = ""; }
    if (!b) { b = ""; }
    return 0 == strcmp(a, b);
}

struct rec_s {
    size_t count;
    size_t size;
    size_t alloc;
    uint8_t * mem;
};

static void rec_add(struct rec_s * r, const void * p, size_t sz) {
    if (r->size + sz + 8 > r->alloc) {
        r->alloc = (r->size + sz + 8) * 2;
        r->mem = realloc(r->mem, r->alloc);
    }
    uint64_t sz64 = sz;
    memcpy(r->mem + r->size, &sz64, 8);
    r->size += 8;
    if (sz) {
        memcpy(r->mem + r->size, p, sz);
    }
    r->size += sz;
    r->count++;
}

static int32_t anno_cbk(void * user_data, const struct jls_annotation_s * a) {
    struct rec_s * r = (struct rec_s *) user_data;
    struct { int64_t ts; uint8_t t, s, g; float y; uint32_t sz; } h;
    memset(&h, 0, sizeof(h));
    h.ts = a->timestamp; h.t = a->annotation_type; h.s = a->storage_type; h.g = a->group_id;
    h.y = a->y; h.sz = a->data_size;
    rec_add(r, &h, sizeof(h));
    rec_add(r, a->data, a->data_size);
    return 0;
}

static int32_t utc_cbk(void * user_data, const struct jls_utc_summary_entry_s * utc, uint32_t size) {
    struct rec_s * r = (struct rec_s *) user_data;
    for (uint32_t i = 0; i < size; ++i) {
        rec_add(r, &utc[i], sizeof(utc[i]));
    }
    return 0;
}

static int32_t ud_cbk(void * user_data, uint16_t chunk_meta, enum jls_storage_type_e storage_type,
                      uint8_t * data, uint32_t data_size) {
    struct rec_s * r = (struct rec_s *) user_data;
    uint32_t h[2] = {chunk_meta, (uint32_t) storage_type};
    rec_add(r, h, sizeof(h));
    rec_add(r, data, data_size);
    return 0;
}

static void rec_cmp(const char * what, int sig, struct rec_s * a, struct rec_s * b) {
    if (a->count != b->count) {
        FAIL("%s signal %d: count %zu != %zu", what, sig, a->count, b->count);
    } else if ((a->size != b->size) || (a->size && memcmp(a->mem, b->mem, a->size))) {
        FAIL("%s signal %d: content differs", what, sig);
    }
    free(a->mem); free(b->mem);
}

static int compare_files(const char * pa, const char * pb) {
    struct jls_rd_s * a = NULL;
    struct jls_rd_s * b = NULL;
    int32_t rc;
    fails_ = 0;
    rc = jls_rd_open(&a, pa);
    if (rc) { printf("open %s failed %d\n", pa, rc); return 1; }
    rc = jls_rd_open(&b, pb);
    if (rc) { printf("open %s failed %d\n", pb, rc); jls_rd_close(a); return 1; }

    struct jls_source_def_s * sa; struct jls_source_def_s * sb;
    uint16_t na = 0, nb = 0;
    jls_rd_sources(a, &sa, &na);
    jls_rd_sources(b, &sb, &nb);
    if (na != nb) {
        FAIL("source count %d != %d", na, nb);
    } else {
        for (uint16_t i = 0; i < na; ++i) {
            if ((sa[i].source_id != sb[i].source_id) || !str_eq(sa[i].name, sb[i].name)
                    || !str_eq(sa[i].vendor, sb[i].vendor) || !str_eq(sa[i].model, sb[i].model)
                    || !str_eq(sa[i].version, sb[i].version) || !str_eq(sa[i].serial_number, sb[i].serial_number)) {
                FAIL("source %d differs", (int) sa[i].source_id);
            }
        }
    }

    struct jls_signal_def_s * ga; struct jls_signal_def_s * gb;
    jls_rd_signals(a, &ga, &na);
    jls_rd_signals(b, &gb, &nb);
    if (na != nb) {
        FAIL("signal count %d != %d", na, nb);
        goto done;
    }
    for (uint16_t i = 0; i < na; ++i) {
        struct jls_signal_def_s * x = &ga[i];
        struct jls_signal_def_s * y = &gb[i];
        int sig = x->signal_id;
        if ((x->signal_id != y->signal_id) || (x->source_id != y->source_id) || (x->signal_type != y->signal_type)
                || (x->data_type != y->data_type) || (x->sample_rate != y->sample_rate)
                || (x->samples_per_data != y->samples_per_data)
                || (x->sample_decimate_factor != y->sample_decimate_factor)
                || (x->entries_per_summary != y->entries_per_summary)
                || (x->summary_decimate_factor != y->summary_decimate_factor)
                || (x->annotation_decimate_factor != y->annotation_decimate_factor)
                || (x->utc_decimate_factor != y->utc_decimate_factor)
                || (x->sample_id_offset != y->sample_id_offset)
                || !str_eq(x->name, y->name) || !str_eq(x->units, y->units)) {
            FAIL("signal def %d differs: samples_per_data %u/%u sample_decimate %u/%u entries_per_summary %u/%u "
                 "summary_decimate %u/%u sample_id_offset %lld/%lld", sig,
                 (unsigned) x->samples_per_data, (unsigned) y->samples_per_data,
                 (unsigned) x->sample_decimate_factor, (unsigned) y->sample_decimate_factor,
                 (unsigned) x->entries_per_summary, (unsigned) y->entries_per_summary,
                 (unsigned) x->summary_decimate_factor, (unsigned) y->summary_decimate_factor,
                 (long long) x->sample_id_offset, (long long) y->sample_id_offset);
            continue;
        }
        // annotations
        {
            struct rec_s ra = {0, 0, 0, NULL}, rb = {0, 0, 0, NULL};
            int32_t r1 = jls_rd_annotations(a, x->signal_id, INT64_MIN, anno_cbk, &ra);
            int32_t r2 = jls_rd_annotations(b, x->signal_id, INT64_MIN, anno_cbk, &rb);
            if (r1 != r2) { FAIL("annotations signal %d rc %d != %d", sig, r1, r2); }
            rec_cmp("annotations", sig, &ra, &rb);
        }
        if (x->signal_type != JLS_SIGNAL_TYPE_FSR) {
            continue;
        }
        {
            struct rec_s ra = {0, 0, 0, NULL}, rb = {0, 0, 0, NULL};
            int32_t r1 = jls_rd_utc(a, x->signal_id, INT64_MIN, utc_cbk, &ra);
            int32_t r2 = jls_rd_utc(b, x->signal_id, INT64_MIN, utc_cbk, &rb);
            if (r1 != r2) { FAIL("utc signal %d rc %d != %d", sig, r1, r2); }
            rec_cmp("utc", sig, &ra, &rb);
        }
        int64_t la = -1, lb = -1;
        int32_t r1 = jls_rd_fsr_length(a, x->signal_id, &la);
        int32_t r2 = jls_rd_fsr_length(b, x->signal_id, &lb);
        if ((r1 != r2) || (la != lb)) {
            FAIL("fsr length signal %d: rc %d/%d len %lld != %lld", sig, r1, r2, (long long) la, (long long) lb);
            continue;
        }
        if (la <= 0) {
            continue;
        }
        size_t bits = jls_datatype_parse_size(x->data_type);
        size_t sz = (size_t) ((la * bits + 7) / 8) + 16;
        uint8_t * da = calloc(1, sz);
        uint8_t * db = calloc(1, sz);
        r1 = jls_rd_fsr(a, x->signal_id, 0, da, la);
        r2 = jls_rd_fsr(b, x->signal_id, 0, db, la);
        if (r1 != r2) {
            FAIL("fsr read signal %d rc %d != %d", sig, r1, r2);
        } else if (!r1 && memcmp(da, db, (size_t) ((la * bits) / 8))) {
            size_t k = 0;
            while (da[k] == db[k]) { ++k; }
            FAIL("fsr samples signal %d differ at byte %zu (sample %zu): %02x vs %02x", sig, k, (k * 8) / bits, da[k], db[k]);
        }
        free(da); free(db);
        // statistics at several increments
        int64_t incrs[] = {1, 3, 10, 100, 1000, 7777, la};
        for (size_t k = 0; k < sizeof(incrs) / sizeof(incrs[0]); ++k) {
            int64_t incr = incrs[k];
            int64_t n = la / incr;
            if (n <= 0) { continue; }
            if (n > 2000) { n = 2000; }
            double * ta = calloc((size_t) n * 4, sizeof(double));
            double * tb = calloc((size_t) n * 4, sizeof(double));
            r1 = jls_rd_fsr_statistics(a, x->signal_id, 0, incr, ta, n);
            r2 = jls_rd_fsr_statistics(b, x->signal_id, 0, incr, tb, n);
            if (r1 != r2) {
                FAIL("statistics signal %d incr %lld rc %d != %d", sig, (long long) incr, r1, r2);
            } else if (!r1) {
                for (int64_t j = 0; j < n * 4; ++j) {
                    double u = ta[j], v = tb[j];
                    if (isnan(u) && isnan(v)) { continue; }
                    double tol = 1e-6 * (fabs(u) + fabs(v)) + 1e-9;
                    if (!(fabs(u - v) <= tol)) {
                        FAIL("statistics signal %d incr %lld entry %lld field %d: %g != %g", sig,
                             (long long) incr, (long long) (j / 4), (int) (j % 4), u, v);
                        break;
                    }
                }
            }
            free(ta); free(tb);
        }
    }
    {
        struct rec_s ra = {0, 0, 0, NULL}, rb = {0, 0, 0, NULL};
        int32_t r1 = jls_rd_user_data(a, ud_cbk, &ra);
        int32_t r2 = jls_rd_user_data(b, ud_cbk, &rb);
        if (r1 != r2) { FAIL("user_data rc %d != %d", r1, r2); }
        rec_cmp("user_data", -1, &ra, &rb);
    }
done:
    jls_rd_close(a);
    jls_rd_close(b);
    return fails_;
}
#include <sys/wait.h>

static const struct jls_source_def_s SRC1 = {.source_id = 1, .name = "s1", .vendor = "v", .model = "m", .version = "1", .serial_number = "sn1"};
static const struct jls_source_def_s SRC3 = {.source_id = 3, .name = "s3", .vendor = "v3", .model = "m3", .version = "3", .serial_number = "sn3"};

static struct jls_signal_def_s mk(uint16_t id, uint16_t src, uint32_t dt, const char * name) {
    struct jls_signal_def_s s;
    memset(&s, 0, sizeof(s));
    s.signal_id = id; s.source_id = src; s.signal_type = JLS_SIGNAL_TYPE_FSR; s.data_type = dt;
    s.sample_rate = 100000; s.samples_per_data = 1000; s.sample_decimate_factor = 100;
    s.entries_per_summary = 200; s.summary_decimate_factor = 100;
    s.annotation_decimate_factor = 100; s.utc_decimate_factor = 100;
    s.name = name; s.units = "A";
    return s;
}

static void gen(const char * path, int variant, int do_close) {
    struct jls_wr_s * wr = NULL;
    if (jls_wr_open(&wr, path)) { exit(2); }
    jls_wr_source_def(wr, &SRC1);
    jls_wr_source_def(wr, &SRC3);
    struct jls_signal_def_s s5 = mk(5, 3, JLS_DATATYPE_F32, "f32");
    struct jls_signal_def_s s6 = mk(6, 1, JLS_DATATYPE_U8, "u8");
    struct jls_signal_def_s s7 = mk(7, 1, JLS_DATATYPE_U1, "u1");
    struct jls_signal_def_s s8 = mk(8, 3, JLS_DATATYPE_I16, "i16");
    struct jls_signal_def_s s9 = mk(9, 3, JLS_DATATYPE_F64, "f64");
    struct jls_signal_def_s s10 = mk(10, 1, JLS_DATATYPE_U4, "u4");
    struct jls_signal_def_s v11 = mk(11, 1, JLS_DATATYPE_F32, "vsr");
    v11.signal_type = JLS_SIGNAL_TYPE_VSR; v11.sample_rate = 0;
    jls_wr_signal_def(wr, &s5);
    jls_wr_signal_def(wr, &s6);
    jls_wr_signal_def(wr, &s7);
    jls_wr_signal_def(wr, &s8);
    jls_wr_signal_def(wr, &s9);
    jls_wr_signal_def(wr, &s10);
    jls_wr_signal_def(wr, &v11);
    if (variant & 1) {
        jls_wr_fsr_omit_data(wr, 5, 1);
    }
    int64_t off5 = (variant & 2) ? 123000 : 0;
    int64_t off8 = (variant & 2) ? 777 : 0;
    const int W = 937;
    const int N = (variant & 4) ? 700 : 120;
    float * f = malloc(sizeof(float) * W);
    uint8_t * u8 = malloc(W);
    uint8_t * u1 = malloc(W);
    int16_t * i16 = malloc(sizeof(int16_t) * W);
    double * f64 = malloc(sizeof(double) * W);
    uint8_t * big = malloc(200000);
    for (int i = 0; i < 200000; ++i) { big[i] = (uint8_t) (i * 7); }
    static const uint8_t ud[] = {1, 2, 3, 4, 5, 6, 7};
    for (int k = 0; k < N; ++k) {
        int64_t sid = (int64_t) k * W;
        for (int i = 0; i < W; ++i) {
            int64_t j = sid + i;
            f[i] = (float) ((j % 1000) - 500) * 0.01f;
            u8[i] = ((variant & 8) && (j > 5000) && (j < 60000)) ? 5 : (uint8_t) (j / 3);
            i16[i] = (int16_t) (j * 13);
            f64[i] = (double) j * 0.5;
        }
        // u1: constant 1 in a range, else pattern
        memset(u1, 0, W);
        for (int i = 0; i < W; ++i) {
            int64_t j = sid + i;
            int bit = ((variant & 8) && (j > 10000) && (j < 50000)) ? 1 : (int) ((j / 5) & 1);
            // packed relative to this call: only valid when sid*1 bits is byte aligned; W=937 not aligned.
            u1[i / 8] |= (uint8_t) (bit << (i % 8));
        }
        jls_wr_fsr(wr, 5, off5 + sid, f, W);
        jls_wr_fsr(wr, 6, sid, u8, W);
        jls_wr_fsr(wr, 7, sid, u1, W);
        jls_wr_fsr(wr, 8, off8 + sid, i16, W);
        jls_wr_fsr(wr, 9, sid, f64, W);
        jls_wr_fsr(wr, 10, sid, u8, W);  // u4: W samples -> uses first W/2 bytes
        jls_wr_utc(wr, 5, off5 + sid, 1000000000LL + sid * 10000);
        if ((k % 3) == 0) {
            jls_wr_utc(wr, 8, off8 + sid, 2000000000LL + sid * 10000);
        }
        if ((k % 4) == 0) {
            jls_wr_annotation(wr, 5, off5 + sid, 1.0f + k, JLS_ANNOTATION_TYPE_TEXT, (uint8_t) k, JLS_STORAGE_TYPE_STRING, (const uint8_t *) "hello", 0);
            jls_wr_annotation(wr, 11, sid * 1000, NAN, JLS_ANNOTATION_TYPE_USER, 1, JLS_STORAGE_TYPE_BINARY, ud, sizeof(ud));
            jls_wr_annotation(wr, 0, sid * 1000, 2.0f, JLS_ANNOTATION_TYPE_VERTICAL_MARKER, 2, JLS_STORAGE_TYPE_STRING, (const uint8_t *) "1a", 0);
        }
        if ((k % 10) == 1) {
            jls_wr_user_data(wr, (uint16_t) (0x100 + k), JLS_STORAGE_TYPE_BINARY, ud, sizeof(ud));
            jls_wr_user_data(wr, (uint16_t) (0x200 + k), JLS_STORAGE_TYPE_JSON, (const uint8_t *) "{\"a\": 1}", 0);
        }
        if ((k % 50) == 7) {
            jls_wr_user_data(wr, 0x0abc, JLS_STORAGE_TYPE_BINARY, big, 200000);
            jls_wr_annotation(wr, 6, sid, 0.0f, JLS_ANNOTATION_TYPE_USER, 0, JLS_STORAGE_TYPE_BINARY, big, 150001);
        }
    }
    if (do_close) {
        jls_wr_close(wr);
    } else {
        jls_wr_flush(wr);
        _exit(0);
    }
}

static int copy_bytes(const char * a, const char * b) {
    FILE * fa = fopen(a, "rb"); FILE * fb = fopen(b, "wb");
    if (!fa || !fb) { return 1; }
    char buf[65536]; size_t n;
    while ((n = fread(buf, 1, sizeof(buf), fa)) > 0) { fwrite(buf, 1, n, fb); }
    fclose(fa); fclose(fb);
    return 0;
}

int main(void) {
    // {variant, closed}: variant bit0 = jls_wr_fsr_omit_data on the f32 signal, bit3 = constant runs in u8/u1 signals
    static const int cases[][2] = {{8, 1}, {1, 1}, {0, 0}};
    int total = 0;
    for (size_t c = 0; c < sizeof(cases) / sizeof(cases[0]); ++c) {
        int variant = cases[c][0];
        int closed = cases[c][1];
        const char * src = "x_src.jls"; const char * ref = "x_ref.jls"; const char * dst = "x_dst.jls";
        remove(src); remove(ref); remove(dst);
        if (closed) {
            gen(src, variant, 1);
        } else {
            pid_t p = fork();
            if (p == 0) { gen(src, variant, 0); _exit(0); }
            int st; waitpid(p, &st, 0);
        }
        copy_bytes(src, ref);
        int32_t rc = jls_copy(src, dst, NULL, NULL, NULL, NULL);
        printf("variant %d closed %d: copy rc %d\n", variant, closed, rc);
        int f = rc ? 1 : compare_files(ref, dst);
        printf("  -> %d mismatches\n", f);
        total += f;
    }
    remove("x_src.jls"); remove("x_ref.jls"); remove("x_dst.jls");
    return total ? 1 : 0;
}
