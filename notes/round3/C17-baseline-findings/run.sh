#!/bin/sh
# Build the library objects from the tree this is run in plus the demo, then run the demo.
# Usage (from the worktree root): sh seed_out/baseline-findings/run.sh
set -e
ROOT=$(pwd)
HERE="$ROOT/seed_out/baseline-findings"
TMP=$(mktemp -d)
trap 'rm -rf "$TMP"' EXIT
CFLAGS="-std=gnu99 -O1 -g -Wall -Wextra -Wpedantic -Werror -DJLS_OPTIMIZE_CRC_DISABLE=1 -I$ROOT/include -I$ROOT/include_prv"
OBJS=""
for f in bit_shift buffer datatype copy core crc32c ec log msg_ring_buffer raw tmap reader statistics \
         threaded_writer track wr_fsr wr_ts writer backend_posix; do
    cc $CFLAGS -c "$ROOT/src/$f.c" -o "$TMP/$f.o"
    OBJS="$OBJS $TMP/$f.o"
done
cc -std=gnu99 -O1 -g -Wall -I"$ROOT/include" "$HERE/demo.c" $OBJS -lm -lpthread -o "$TMP/demo"
cd "$TMP"
set +e
timeout 300 ./demo
rc=$?
echo "demo exit code: $rc"
exit $rc
