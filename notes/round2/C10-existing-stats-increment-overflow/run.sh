#!/bin/sh
# Builds the library sources of the current tree + demo.c (ASAN) into a temp dir and runs the demo.
HERE=$(cd "$(dirname "$0")" && pwd)
ROOT=$(pwd)
T=$(mktemp -d /tmp/jls_seed_XXXXXX)
trap 'rm -rf "$T"' EXIT
SRCS="bit_shift buffer datatype copy core crc32c ec log msg_ring_buffer raw tmap reader statistics threaded_writer track wr_fsr wr_ts writer backend_posix"
for f in $SRCS; do
  cc -D__FILENAME__=\"$f.c\" -I"$ROOT/include" -I"$ROOT/include_prv" -std=gnu99 -msse4.2 -g -O1 \
     -fsanitize=address -fno-omit-frame-pointer -c "$ROOT/src/$f.c" -o "$T/$f.o" || exit 99
done
cc -I"$ROOT/include" -std=gnu99 -g -O1 -fsanitize=address -fno-omit-frame-pointer \
   "$HERE/demo.c" "$T"/*.o -o "$T/demo" -lm -lpthread || exit 99
cd "$T"
ASAN_OPTIONS=detect_leaks=1:abort_on_error=0 timeout 120 "$T/demo" "$T/demo.jls"
rc=$?
echo "demo exit code: $rc"
exit $rc
