#include "jls/writer.h"
#include "jls/reader.h"
#include "jls/threaded_writer.h"
#include <stdio.h>
#include <stdlib.h>
#include <string.h>
#include <stdint.h>

static const struct jls_source_def_s SRC = {.source_id=1,.name="s",.vendor="v",.model="m",.version="1",.serial_number="1"};

int main(int argc, char ** argv) {
    const char * path = argv[1];
    (void) argc;
    struct jls_wr_s * w;
    if (jls_wr_open(&w, path)) return 2;
    jls_wr_source_def(w, &SRC);
    struct jls_signal_def_s d = {.signal_id=1,.source_id=1,.signal_type=JLS_SIGNAL_TYPE_FSR,.data_type=JLS_DATATYPE_F32,.sample_rate=1000,.name="a",.units="u"};
    printf("def %d\n", jls_wr_signal_def(w, &d));
    float * data = calloc(100000, 4);
    printf("fsr %d\n", jls_wr_fsr_f32(w, 1, 0, data, 100000));
    jls_wr_close(w);
    free(data);
    struct jls_rd_s * r;
    if (jls_rd_open(&r, path)) return 3;
    double st[8];
    int32_t rc = jls_rd_fsr_statistics(r, 1, 0, ((int64_t) 1) << 62, st, 2);
    printf("stats rc %d\n", rc);
    jls_rd_close(r);
    return 0;
}
