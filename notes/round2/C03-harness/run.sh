#!/bin/sh
# Build the library sources of the tree this is run from plus demo.c into a
# temporary directory and run the demo.  Exit code = demo result.
set -e
HERE=$(cd "$(dirname "$0")" && pwd)
ROOT=$(pwd)
TMP=$(mktemp -d /tmp/c03demo.XXXXXX)
trap 'rm -rf "$TMP"' EXIT
SRCS=""
for f in bit_shift buffer datatype copy core crc32c ec log msg_ring_buffer raw tmap reader statistics \
         threaded_writer track wr_fsr wr_ts writer backend_posix; do
    SRCS="$SRCS $ROOT/src/$f.c"
done
cc -O1 -g -std=gnu11 -DJLS_OPTIMIZE_CRC_DISABLE -I"$ROOT/include" -I"$ROOT/include_prv" ${DEMO_DEFS} \
    -o "$TMP/demo" "$HERE/demo.c" $SRCS -Wl,--wrap=write -lm -lpthread
set +e
"$TMP/demo" "$TMP" ${DEMO_ARGS}
rc=$?
exit $rc
