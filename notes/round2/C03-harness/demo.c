/*
 * Crash-point harness for property C03.
 *
 * The writer runs once against the real file while every backend write()
 * (offset, bytes) is recorded.  Then, for the selected crash points
 * (k complete writes + an optional byte prefix of write k+1), the file
 * image is rebuilt, opened with jls_rd_open and checked against what was
 * submitted.
 *
 * Link with -Wl,--wrap=write.
 */
#define _GNU_SOURCE
#include "jls/writer.h"
#include "jls/reader.h"
#include "jls/format.h"
#include "jls/time.h"
#include "jls/log.h"
#include <stdio.h>
#include <stdlib.h>
#include <string.h>
#include <stdint.h>
#include <math.h>
#include <unistd.h>
#include <fcntl.h>
#include <signal.h>

#ifndef PROGRAM
#define PROGRAM 1
#endif

#define NSIGS 3

struct op_s {
    int64_t off;
    size_t len;
    uint8_t * data;
    int64_t lo[NSIGS];   // samples submitted by calls that had returned
    int64_t hi[NSIGS];   // samples submitted including the call in progress
    int utc_hi;
    int anno_hi;
    int defs_done;
    int in_place;       // rewrites bytes inside the file instead of appending
};

static struct op_s * g_ops;
static size_t g_nops, g_ops_alloc;
static int g_rec;
static int64_t g_lo[NSIGS], g_hi[NSIGS];
static int g_utc_hi, g_anno_hi, g_defs_done;

ssize_t __real_write(int fd, const void * buf, size_t n);
ssize_t __wrap_write(int fd, const void * buf, size_t n) {
    if (g_rec && (fd > 2)) {
        if (g_nops == g_ops_alloc) {
            g_ops_alloc = g_ops_alloc ? g_ops_alloc * 2 : 1024;
            g_ops = realloc(g_ops, g_ops_alloc * sizeof(*g_ops));
        }
        struct op_s * o = &g_ops[g_nops++];
        o->off = lseek(fd, 0, SEEK_CUR);
        o->len = n;
        o->data = malloc(n ? n : 1);
        memcpy(o->data, buf, n);
        memcpy(o->lo, g_lo, sizeof(g_lo));
        memcpy(o->hi, g_hi, sizeof(g_hi));
        o->utc_hi = g_utc_hi;
        o->anno_hi = g_anno_hi;
        o->defs_done = g_defs_done;
    }
    return __real_write(fd, buf, n);
}

#define FAIL(...) do { printf("FAIL k=%zu p=%zu: ", g_k, g_p); printf(__VA_ARGS__); printf("\n"); return 1; } while (0)
static size_t g_k, g_p;
static int g_max_fail = 5;
static int g_strict = 0;
static int g_open_check = 0;

// ---------------------------------------------------------------- program

struct sig_s {
    struct jls_signal_def_s def;
    int64_t total;
    int64_t start_id;
    int64_t spd;        // aligned samples_per_data, filled after the write
    uint8_t * bytes;    // expected sample bytes
    double * f64;       // expected values
    int elem;           // bytes per sample
};

static struct sig_s g_sig[NSIGS];
static int g_nsig;

#define UTC_MAX 4096
static struct jls_utc_summary_entry_s g_utc[UTC_MAX];   // for signal 0 of the program
static int g_utc_n;
#define ANNO_MAX 4096
static struct { int64_t ts; char txt[24]; } g_anno[ANNO_MAX];
static int g_anno_n;

static const struct jls_source_def_s SRC = {
    .source_id = 1, .name = "src", .vendor = "v", .model = "m", .version = "1", .serial_number = "sn",
};

static void sig_init(struct sig_s * s, uint16_t id, uint32_t dt, int elem, int64_t total, int64_t start_id,
                     uint32_t spd, uint32_t sdf, uint32_t eps, uint32_t sumdf) {
    memset(s, 0, sizeof(*s));
    s->def.signal_id = id;
    s->def.source_id = 1;
    s->def.signal_type = JLS_SIGNAL_TYPE_FSR;
    s->def.data_type = dt;
    s->def.sample_rate = 1000;
    s->def.samples_per_data = spd;
    s->def.sample_decimate_factor = sdf;
    s->def.entries_per_summary = eps;
    s->def.summary_decimate_factor = sumdf;
    s->def.annotation_decimate_factor = 10;
    s->def.utc_decimate_factor = 10;
    s->def.name = "sig";
    s->def.units = "u";
    s->total = total;
    s->start_id = start_id;
    s->elem = elem;
    s->bytes = malloc(total * elem);
    s->f64 = malloc(total * sizeof(double));
    uint32_t r = 12345 + id;
    for (int64_t i = 0; i < total; ++i) {
        r = r * 1664525u + 1013904223u;
        if (dt == JLS_DATATYPE_F32) {
            float v = (float) ((int32_t) (r >> 8) % 20001) / 100.0f + (float) (i % 97);
            memcpy(s->bytes + i * 4, &v, 4);
            s->f64[i] = v;
        } else if (dt == JLS_DATATYPE_U8) {
            uint8_t v = (uint8_t) (r >> 16);
            s->bytes[i] = v;
            s->f64[i] = v;
        } else if (dt == JLS_DATATYPE_I16) {
            int16_t v = (int16_t) (r >> 12);
            memcpy(s->bytes + i * 2, &v, 2);
            s->f64[i] = v;
        }
    }
}

static int writer_program(const char * path) {
    struct jls_wr_s * wr = NULL;
#if PROGRAM == 1
    // one f32 signal, small decimations -> three summary levels on disk
    g_nsig = 1;
    sig_init(&g_sig[0], 3, JLS_DATATYPE_F32, 4, 40000, 0, 64, 16, 20, 10);
    int64_t step = 100;
#elif PROGRAM == 2
    // three interleaved signals of different types, non-zero first sample id
    g_nsig = 3;
    sig_init(&g_sig[0], 3, JLS_DATATYPE_F32, 4, 30000, 0, 64, 16, 20, 10);
    sig_init(&g_sig[1], 4, JLS_DATATYPE_U8, 1, 30000, 0, 128, 32, 20, 10);
    sig_init(&g_sig[2], 7, JLS_DATATYPE_I16, 2, 30000, 0, 96, 16, 30, 10);
    int64_t step = 73;
#endif
    g_rec = 1;
    if (jls_wr_open(&wr, path)) { return 1; }
    if (jls_wr_source_def(wr, &SRC)) { return 1; }
    for (int i = 0; i < g_nsig; ++i) {
        if (jls_wr_signal_def(wr, &g_sig[i].def)) { return 1; }
    }
    g_defs_done = 1;
    int64_t pos = 0;
    int64_t total = g_sig[0].total;
    int iter = 0;
    while (pos < total) {
        int64_t n = step;
        if (pos + n > total) { n = total - pos; }
        for (int i = 0; i < g_nsig; ++i) {
            struct sig_s * s = &g_sig[i];
            g_hi[i] = pos + n;
            if (jls_wr_fsr(wr, s->def.signal_id, s->start_id + pos, s->bytes + pos * s->elem, (uint32_t) n)) { return 1; }
            g_lo[i] = pos + n;
        }
        if ((iter % 3) == 0 && g_utc_n < UTC_MAX) {
            g_utc[g_utc_n].sample_id = pos;
            g_utc[g_utc_n].timestamp = JLS_TIME_YEAR + pos * 1000003LL;
            g_utc_hi = ++g_utc_n;
            if (jls_wr_utc(wr, g_sig[0].def.signal_id, g_sig[0].start_id + pos, g_utc[g_utc_n - 1].timestamp)) { return 1; }
        }
        if ((iter % 5) == 0 && g_anno_n < ANNO_MAX) {
            g_anno[g_anno_n].ts = pos;
            snprintf(g_anno[g_anno_n].txt, sizeof(g_anno[0].txt), "anno-%d", g_anno_n);
            g_anno_hi = ++g_anno_n;
            if (jls_wr_annotation(wr, g_sig[0].def.signal_id, g_sig[0].start_id + pos, 1.0f, JLS_ANNOTATION_TYPE_TEXT, 0,
                                  JLS_STORAGE_TYPE_STRING, (const uint8_t *) g_anno[g_anno_n - 1].txt, 0)) { return 1; }
        }
        pos += n;
        ++iter;
    }
    if (jls_wr_close(wr)) { return 1; }
    g_rec = 0;
    return 0;
}

// ---------------------------------------------------------------- checks

struct utc_ck_s { int next; int bad; int hi; };

static int32_t on_utc(void * user_data, const struct jls_utc_summary_entry_s * utc, uint32_t size) {
    struct utc_ck_s * c = (struct utc_ck_s *) user_data;
    for (uint32_t i = 0; i < size; ++i) {
        int found = 0;
        for (int j = c->next; j < c->hi; ++j) {
            if ((g_utc[j].sample_id == utc[i].sample_id) && (g_utc[j].timestamp == utc[i].timestamp)) {
                c->next = j + 1;
                found = 1;
                break;
            }
        }
        if (!found) { c->bad = 1; return 1; }
    }
    return 0;
}

struct anno_ck_s { int next; int bad; int hi; };

static int32_t on_anno(void * user_data, const struct jls_annotation_s * a) {
    struct anno_ck_s * c = (struct anno_ck_s *) user_data;
    for (int j = c->next; j < c->hi; ++j) {
        if ((g_anno[j].ts == a->timestamp) && (a->data_size == strlen(g_anno[j].txt) + 1)
                && (0 == memcmp(a->data, g_anno[j].txt, a->data_size))) {
            c->next = j + 1;
            return 0;
        }
    }
    c->bad = 1;
    return 1;
}

static int close_enough(double a, double b, double scale) {
    if (isnan(a) || isnan(b)) { return 0; }
    return fabs(a - b) <= 1e-4 * (fabs(scale) + 1.0);
}

static int check_stats(struct jls_rd_s * rd, struct sig_s * s, int64_t len, int64_t incr, int64_t parts) {
    double * d = malloc(sizeof(double) * 4 * parts);
    int32_t rc = jls_rd_fsr_statistics(rd, s->def.signal_id, 0, incr, d, parts);
    if (rc && !g_strict) {
        free(d);
        return 0;  // the unmodified library refuses some requests that end on a summary chunk boundary
    }
    if (rc) {
        free(d);
        FAIL("signal %d statistics(incr=%lld, n=%lld) returned %d", (int) s->def.signal_id, (long long) incr, (long long) parts, rc);
    }
    for (int64_t p = 0; p < parts; ++p) {
        double mean = 0.0, mn = 1e300, mx = -1e300;
        for (int64_t i = p * incr; i < (p + 1) * incr; ++i) {
            double v = s->f64[i];
            mean += v;
            if (v < mn) { mn = v; }
            if (v > mx) { mx = v; }
        }
        mean /= incr;
        double scale = fabs(mx) > fabs(mn) ? fabs(mx) : fabs(mn);
        if (!close_enough(d[p * 4 + JLS_SUMMARY_FSR_MEAN], mean, scale)
                || !close_enough(d[p * 4 + JLS_SUMMARY_FSR_MIN], mn, scale)
                || !close_enough(d[p * 4 + JLS_SUMMARY_FSR_MAX], mx, scale)) {
            printf("FAIL k=%zu p=%zu: signal %d statistics mismatch len=%lld incr=%lld part=%lld: got mean=%g min=%g max=%g, expected mean=%g min=%g max=%g\n",
                   g_k, g_p, (int) s->def.signal_id, (long long) len, (long long) incr, (long long) p,
                   d[p * 4 + JLS_SUMMARY_FSR_MEAN], d[p * 4 + JLS_SUMMARY_FSR_MIN], d[p * 4 + JLS_SUMMARY_FSR_MAX],
                   mean, mn, mx);
            free(d);
            return 1;
        }
    }
    free(d);
    return 0;
}

static int check_file(const char * path, size_t k, size_t p) {
    g_k = k;
    g_p = p;
    const struct op_s * o = (k < g_nops) ? &g_ops[k] : NULL;
    int defs_done = o ? o->defs_done : 1;
    struct jls_rd_s * rd = NULL;
    int32_t rc = jls_rd_open(&rd, path);
    if (rc) {
        if ((p == 0) && defs_done && (k > 0) && g_ops[k - 1].defs_done) {
            // Known gap of the unmodified library: a track head payload that was
            // rewritten in place while its CRC footer write had not happened yet.
            int known_gap = g_ops[k - 1].in_place && (g_ops[k - 1].len != 32) && o && o->in_place;
            if (g_strict || (g_open_check && !known_gap)) {
                FAIL("open returned %d at a clean crash point after all definitions", rc);
            }
        }
        return 0;
    }
    for (int i = 0; i < g_nsig; ++i) {
        struct sig_s * s = &g_sig[i];
        int64_t hi = o ? o->hi[i] : s->total;
        int64_t lo = o ? o->lo[i] : s->total;
        int64_t len = -1;
        struct jls_signal_def_s def;
        rc = jls_rd_signal(rd, s->def.signal_id, &def);
        if (rc) {
            if (defs_done && (p == 0)) { FAIL("signal %d missing", (int) s->def.signal_id); }
            continue;
        }
        rc = jls_rd_fsr_length(rd, s->def.signal_id, &len);
        if (rc) {
            if (g_strict || (p == 0)) { jls_rd_close(rd); FAIL("signal %d fsr_length returned %d", (int) s->def.signal_id, rc); }
            continue;
        }
        if ((len < 0) || (len > hi)) {
            FAIL("signal %d length %lld > submitted %lld", (int) s->def.signal_id, (long long) len, (long long) hi);
        }
        if (g_strict && (p == 0) && defs_done && (len < lo - 2 * (int64_t) def.samples_per_data)) {
            FAIL("signal %d length %lld lost more than allowed, submitted %lld, samples_per_data %u",
                 (int) s->def.signal_id, (long long) len, (long long) lo, def.samples_per_data);
        }
        if (len > 0) {
            uint8_t * buf = calloc(1, len * s->elem + 64);
            rc = jls_rd_fsr(rd, s->def.signal_id, 0, buf, len);
            if (rc) { free(buf); FAIL("signal %d fsr read of %lld returned %d", (int) s->def.signal_id, (long long) len, rc); }
            if (memcmp(buf, s->bytes, len * s->elem)) {
                int64_t at = 0;
                while (buf[at] == s->bytes[at]) { ++at; }
                free(buf);
                FAIL("signal %d samples differ at sample %lld of %lld", (int) s->def.signal_id, (long long) (at / s->elem), (long long) len);
            }
            free(buf);
            if (check_stats(rd, s, len, len, 1)) { jls_rd_close(rd); return 1; }
            int64_t incr = def.sample_decimate_factor;
            for (int lv = 0; lv < 4; ++lv) {
                if (len >= incr) {
                    if (check_stats(rd, s, len, incr, len / incr)) { jls_rd_close(rd); return 1; }
                }
                incr *= def.summary_decimate_factor;
            }
        }
    }
    // UTC / annotations on the first signal
    struct jls_signal_def_s def0;
    if (0 == jls_rd_signal(rd, g_sig[0].def.signal_id, &def0)) {
        struct utc_ck_s uc = {.next = 0, .bad = 0, .hi = o ? o->utc_hi : g_utc_n};
        rc = jls_rd_utc(rd, g_sig[0].def.signal_id, -1000000, on_utc, &uc);
        if (uc.bad) { FAIL("utc entry returned that was not written (or out of order)"); }
        struct anno_ck_s ac = {.next = 0, .bad = 0, .hi = o ? o->anno_hi : g_anno_n};
        rc = jls_rd_annotations(rd, g_sig[0].def.signal_id, -1000000, on_anno, &ac);
        if (ac.bad) { FAIL("annotation returned that was not written (or out of order)"); }
    }
    jls_rd_close(rd);
    return 0;
}

static void on_log(const char * msg) {
    if (!g_rec) { printf("%s", msg); }
}

static void on_alarm(int sig) {
    (void) sig;
    static const char msg[] = "FAIL: timeout (hang)\n";
    __real_write(1, msg, sizeof(msg) - 1);
    _exit(3);
}

int main(int argc, char ** argv) {
    char path_w[256], path_c[256];
    const char * dir = (argc > 1) ? argv[1] : "/tmp";
    size_t k_step = (argc > 2) ? (size_t) atoi(argv[2]) : 1;
    int do_partial = (argc > 3) ? atoi(argv[3]) : 1;
    size_t k_first = (argc > 4) ? (size_t) atoi(argv[4]) : 0;
    size_t k_last = (argc > 5) ? (size_t) atoi(argv[5]) : (size_t) -1;
    if (getenv("OPEN_CHECK")) { g_open_check = atoi(getenv("OPEN_CHECK")); }
    if (getenv("STRICT")) { g_strict = atoi(getenv("STRICT")); }
    if (getenv("MAX_FAIL")) { g_max_fail = atoi(getenv("MAX_FAIL")); }
    snprintf(path_w, sizeof(path_w), "%s/c03_w.jls", dir);
    snprintf(path_c, sizeof(path_c), "%s/c03_c.jls", dir);
    if (getenv("JLS_LOG")) { jls_log_register(on_log); }
    signal(SIGALRM, on_alarm);
    alarm(600);
    setvbuf(stdout, NULL, _IONBF, 0);

    if (writer_program(path_w)) {
        printf("writer program failed\n");
        return 2;
    }
    printf("recorded %zu writes\n", g_nops);

    // sanity: the complete file reads back in full
    if (check_file(path_w, g_nops, 0)) { return 1; }
    {
        struct jls_rd_s * rd = NULL;
        int64_t len = 0;
        if (jls_rd_open(&rd, path_w) || jls_rd_fsr_length(rd, g_sig[0].def.signal_id, &len) || (len != g_sig[0].total)) {
            printf("FAIL: complete file does not read back in full\n");
            return 1;
        }
        jls_rd_close(rd);
    }

    int64_t img_size = 0;
    for (size_t i = 0; i < g_nops; ++i) {
        if ((int64_t) (g_ops[i].off + g_ops[i].len) > img_size) { img_size = g_ops[i].off + g_ops[i].len; }
    }
    {
        int64_t end = 0;
        for (size_t i = 0; i < g_nops; ++i) {
            g_ops[i].in_place = (g_ops[i].off < end);
            if ((int64_t) (g_ops[i].off + g_ops[i].len) > end) { end = g_ops[i].off + g_ops[i].len; }
        }
    }
    uint8_t * img = calloc(1, img_size);
    int64_t img_len = 0;
    int failures = 0;
    size_t checked = 0;
    if (k_last > g_nops) { k_last = g_nops; }

    for (size_t k = 0; k <= k_last; ++k) {
        // img holds ops[0..k)
        if ((k >= k_first) && (((k - k_first) % k_step) == 0)) {
            size_t plist[4];
            int pn = 0;
            plist[pn++] = 0;
            if (do_partial && (k < g_nops) && (g_ops[k].len > 1)) {
                plist[pn++] = 1;
                if (g_ops[k].len > 2) { plist[pn++] = g_ops[k].len / 2; }
                if (g_ops[k].len > 3) { plist[pn++] = g_ops[k].len - 1; }
            }
            for (int pi = 0; pi < pn; ++pi) {
                size_t p = plist[pi];
                int fd = open(path_c, O_RDWR | O_CREAT | O_TRUNC, 0644);
                if (fd < 0) { perror("open"); return 2; }
                if (img_len && (__real_write(fd, img, img_len) != img_len)) { perror("write"); return 2; }
                if (p) {
                    if (pwrite(fd, g_ops[k].data, p, g_ops[k].off) != (ssize_t) p) { perror("pwrite"); return 2; }
                }
                close(fd);
                ++checked;
                if (check_file(path_c, k, p)) {
                    ++failures;
                    if (failures >= g_max_fail) { goto done; }
                }
            }
        }
        if (k < g_nops) {
            memcpy(img + g_ops[k].off, g_ops[k].data, g_ops[k].len);
            if ((int64_t) (g_ops[k].off + g_ops[k].len) > img_len) { img_len = g_ops[k].off + g_ops[k].len; }
        }
    }
done:
    unlink(path_w);
    unlink(path_c);
    printf("checked %zu crash points, %d failing\n", checked, failures);
    return failures ? 1 : 0;
}
