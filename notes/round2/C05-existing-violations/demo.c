/*
 * Minimal independent JLS walker, written from the format description in
 * include/jls/format.h only (uses the library just for the CRC32C routine).
 *
 * walk_file(path) returns the number of conformance violations found:
 *   - file header identification / CRC / recorded length == file size
 *   - sequential walk from the file header to the END chunk: 8-byte alignment,
 *     header CRC, payload CRC, zero padding, payload_prev_length (back walk)
 *   - item_next / item_prev lead to a chunk of the same list and link back
 *   - track HEAD offsets lead to the first DATA / first INDEX of that level
 *   - every INDEX is immediately followed by its SUMMARY (same signal, level, timestamp)
 *   - index entries lead to a chunk of the expected kind, signal, level, timestamp
 */
#include "jls/format.h"
#include "jls/crc32c.h"
#include <stdio.h>
#include <stdlib.h>
#include <string.h>
#include <stdint.h>
#include <inttypes.h>

struct wk_chunk_s {
    int64_t off;
    struct jls_chunk_header_s h;
    const uint8_t * p;      // payload
};

static struct wk_chunk_s * wk_chunks = NULL;
static size_t wk_count = 0;
static int wk_fail_count = 0;
static uint32_t wk_samples_per_data[JLS_SIGNAL_COUNT];

#define WK_FAIL(...) do { \
    if (wk_fail_count < 20) { printf("  VIOLATION: "); printf(__VA_ARGS__); printf("\n"); } \
    ++wk_fail_count; \
} while (0)

static struct wk_chunk_s * wk_find(int64_t off) {
    size_t lo = 0, hi = wk_count;
    while (lo < hi) {
        size_t mid = (lo + hi) / 2;
        if (wk_chunks[mid].off == off) {
            return &wk_chunks[mid];
        } else if (wk_chunks[mid].off < off) {
            lo = mid + 1;
        } else {
            hi = mid;
        }
    }
    return NULL;
}

static int wk_is_track(uint8_t tag) { return (tag >= 0x20) && (tag < 0x40); }
static int wk_track_type(uint8_t tag) { return (tag >> 3) & 3; }
static int wk_chunk_kind(uint8_t tag) { return tag & 7; }  // 0=def 1=head 2=data 3=index 4=summary

// identify which doubly-linked list a chunk belongs to
static uint32_t wk_list_id(const struct jls_chunk_header_s * h) {
    if (h->tag == JLS_TAG_SOURCE_DEF) { return 1; }
    if (h->tag == JLS_TAG_USER_DATA) { return 3; }
    if (h->tag == JLS_TAG_SIGNAL_DEF) { return 2; }
    if (wk_is_track(h->tag)) {
        if (wk_chunk_kind(h->tag) <= 1) { return 2; }  // track def & head live in the signal list
        return 0x10000U | (((uint32_t) h->tag) << 16) | h->chunk_meta;
    }
    return 0;
}

static int64_t wk_payload_timestamp(const struct wk_chunk_s * c) {
    int64_t t = 0;
    if (c->h.payload_length >= 8) {
        memcpy(&t, c->p, 8);
    }
    return t;
}

static int walk_file(const char * path) {
    wk_fail_count = 0;
    wk_count = 0;
    memset(wk_samples_per_data, 0, sizeof(wk_samples_per_data));
    FILE * f = fopen(path, "rb");
    if (!f) { printf("cannot open %s\n", path); return 1; }
    fseek(f, 0, SEEK_END);
    int64_t size = ftell(f);
    fseek(f, 0, SEEK_SET);
    uint8_t * d = malloc((size_t) size + 16);
    if ((int64_t) fread(d, 1, (size_t) size, f) != size) { printf("read failed\n"); fclose(f); return 1; }
    fclose(f);

    static const uint8_t ident[16] = JLS_HEADER_IDENTIFICATION;
    struct jls_file_header_s fh;
    if (size < (int64_t) sizeof(fh)) { WK_FAIL("file too short"); return wk_fail_count; }
    memcpy(&fh, d, sizeof(fh));
    if (memcmp(fh.identification, ident, 16)) { WK_FAIL("bad identification"); }
    if (fh.crc32 != jls_crc32c(d, sizeof(fh) - 4)) { WK_FAIL("file header crc"); }
    if ((int64_t) fh.length != size) { WK_FAIL("file header length %" PRIu64 " != file size %" PRIi64, fh.length, size); }

    free(wk_chunks);
    size_t cap = 1024;
    wk_chunks = malloc(cap * sizeof(*wk_chunks));
    int64_t off = sizeof(fh);
    uint32_t prev_len = 0;
    int saw_end = 0;
    while (off < size) {
        if (saw_end) { WK_FAIL("chunk at %" PRIi64 " after END", off); break; }
        if (off & 7) { WK_FAIL("chunk at %" PRIi64 " not 8-byte aligned", off); break; }
        if ((off + 32) > size) { WK_FAIL("truncated header at %" PRIi64, off); break; }
        if (wk_count == cap) { cap *= 2; wk_chunks = realloc(wk_chunks, cap * sizeof(*wk_chunks)); }
        struct wk_chunk_s * c = &wk_chunks[wk_count];
        c->off = off;
        memcpy(&c->h, d + off, 32);
        c->p = d + off + 32;
        if (c->h.crc32 != jls_crc32c_hdr(&c->h)) { WK_FAIL("header crc at %" PRIi64, off); break; }
        if (c->h.payload_prev_length != prev_len) {
            WK_FAIL("chunk at %" PRIi64 " (tag 0x%02x): payload_prev_length %" PRIu32 " but previous chunk payload_length is %" PRIu32,
                    off, c->h.tag, c->h.payload_prev_length, prev_len);
        }
        int64_t next = off + 32;
        if (c->h.payload_length) {
            uint32_t len = c->h.payload_length;
            uint32_t pad = (8 - ((len + 4) & 7)) & 7;
            next += len + pad + 4;
            if (next > size) { WK_FAIL("truncated payload at %" PRIi64, off); break; }
            for (uint32_t i = 0; i < pad; ++i) {
                if (c->p[len + i]) { WK_FAIL("non-zero pad at %" PRIi64, off); break; }
            }
            uint32_t crc;
            memcpy(&crc, c->p + len + pad, 4);
            if (crc != jls_crc32c(c->p, len)) { WK_FAIL("payload crc at %" PRIi64, off); }
        }
        if (c->h.tag == JLS_TAG_END) { saw_end = 1; }
        if ((c->h.tag == JLS_TAG_SIGNAL_DEF) && (c->h.chunk_meta < JLS_SIGNAL_COUNT) && (c->h.payload_length >= 16)) {
            memcpy(&wk_samples_per_data[c->h.chunk_meta], c->p + 12, 4);
        }
        prev_len = c->h.payload_length;
        ++wk_count;
        off = next;
    }
    if (!saw_end) { WK_FAIL("no END chunk at end of file"); }
    if (off != size) { WK_FAIL("walk ended at %" PRIi64 " but file size is %" PRIi64, off, size); }

    for (size_t i = 0; i < wk_count; ++i) {
        struct wk_chunk_s * c = &wk_chunks[i];
        uint32_t list_id = wk_list_id(&c->h);
        if (c->h.item_next) {
            struct wk_chunk_s * t = wk_find((int64_t) c->h.item_next);
            if (!t) { WK_FAIL("chunk %" PRIi64 " (tag 0x%02x) item_next %" PRIu64 " is not a chunk", c->off, c->h.tag, c->h.item_next); }
            else if (wk_list_id(&t->h) != list_id) { WK_FAIL("chunk %" PRIi64 " (tag 0x%02x meta 0x%04x) item_next leads to tag 0x%02x meta 0x%04x", c->off, c->h.tag, c->h.chunk_meta, t->h.tag, t->h.chunk_meta); }
            else if ((int64_t) t->h.item_prev != c->off) { WK_FAIL("chunk %" PRIi64 " item_next target does not link back", c->off); }
        }
        if (c->h.item_prev) {
            struct wk_chunk_s * t = wk_find((int64_t) c->h.item_prev);
            if (!t) { WK_FAIL("chunk %" PRIi64 " item_prev %" PRIu64 " is not a chunk", c->off, c->h.item_prev); }
            else if (wk_list_id(&t->h) != list_id) { WK_FAIL("chunk %" PRIi64 " (tag 0x%02x) item_prev leads to tag 0x%02x", c->off, c->h.tag, t->h.tag); }
            else if ((int64_t) t->h.item_next != c->off) { WK_FAIL("chunk %" PRIi64 " item_prev target does not link forward", c->off); }
        }
        if (!wk_is_track(c->h.tag)) {
            continue;
        }
        int kind = wk_chunk_kind(c->h.tag);
        int tt = wk_track_type(c->h.tag);
        uint16_t signal_id = c->h.chunk_meta & 0x0fff;
        uint8_t level = (uint8_t) (c->h.chunk_meta >> 12);
        uint8_t tag_base = (uint8_t) (c->h.tag & ~7);
        if (kind == JLS_TRACK_CHUNK_HEAD) {
            if (c->h.payload_length != JLS_SUMMARY_LEVEL_COUNT * 8) { WK_FAIL("head %" PRIi64 " payload length", c->off); continue; }
            for (int lvl = 0; lvl < JLS_SUMMARY_LEVEL_COUNT; ++lvl) {
                int64_t o;
                memcpy(&o, c->p + lvl * 8, 8);
                if (!o) { continue; }
                struct wk_chunk_s * t = wk_find(o);
                uint8_t want_tag = tag_base | (lvl ? JLS_TRACK_CHUNK_INDEX : JLS_TRACK_CHUNK_DATA);
                uint16_t want_meta = signal_id | (uint16_t) (lvl << 12);
                if (!t) { WK_FAIL("head %" PRIi64 " level %d offset %" PRIi64 " is not a chunk", c->off, lvl, o); }
                else if ((t->h.tag != want_tag) || (t->h.chunk_meta != want_meta)) { WK_FAIL("head %" PRIi64 " level %d leads to tag 0x%02x meta 0x%04x", c->off, lvl, t->h.tag, t->h.chunk_meta); }
                else if (t->h.item_prev) { WK_FAIL("head %" PRIi64 " level %d does not lead to the first chunk of the level", c->off, lvl); }
            }
            if (tt == JLS_TRACK_TYPE_FSR) {
                // the first data chunk carries the sample_id of the first sample,
                // which is also where the first level-1 index starts.
                int64_t o0, o1;
                memcpy(&o0, c->p, 8);
                memcpy(&o1, c->p + 8, 8);
                struct wk_chunk_s * t0 = o0 ? wk_find(o0) : NULL;
                struct wk_chunk_s * t1 = o1 ? wk_find(o1) : NULL;
                if (o1 && !o0) {
                    WK_FAIL("fsr head %" PRIi64 " has a level 1 index but no first data chunk", c->off);
                } else if (t0 && t1 && (wk_payload_timestamp(t0) != wk_payload_timestamp(t1))) {
                    WK_FAIL("fsr head %" PRIi64 " level 0 leads to data at sample_id %" PRIi64 " but the track starts at %" PRIi64,
                            c->off, wk_payload_timestamp(t0), wk_payload_timestamp(t1));
                }
            }
        } else if (kind == JLS_TRACK_CHUNK_INDEX) {
            struct jls_payload_header_s ph;
            if (c->h.payload_length < sizeof(ph)) { WK_FAIL("index %" PRIi64 " too short", c->off); continue; }
            memcpy(&ph, c->p, sizeof(ph));
            if ((i + 1) >= wk_count) { WK_FAIL("index %" PRIi64 " is last chunk", c->off); continue; }
            struct wk_chunk_s * s = &wk_chunks[i + 1];
            if ((s->h.tag != (tag_base | JLS_TRACK_CHUNK_SUMMARY)) || (s->h.chunk_meta != c->h.chunk_meta)) {
                WK_FAIL("INDEX at %" PRIi64 " (tag 0x%02x meta 0x%04x) is followed by tag 0x%02x meta 0x%04x, not by its SUMMARY",
                        c->off, c->h.tag, c->h.chunk_meta, s->h.tag, s->h.chunk_meta);
            } else if (wk_payload_timestamp(s) != ph.timestamp) {
                WK_FAIL("INDEX at %" PRIi64 " timestamp differs from its SUMMARY", c->off);
            }
            if (tt == JLS_TRACK_TYPE_FSR) {
                if (c->h.payload_length != (sizeof(ph) + 8 * (size_t) ph.entry_count)) { WK_FAIL("fsr index %" PRIi64 " length", c->off); continue; }
                int64_t t_prev = 0;
                for (uint32_t k = 0; k < ph.entry_count; ++k) {
                    int64_t o;
                    memcpy(&o, c->p + sizeof(ph) + 8 * (size_t) k, 8);
                    if (!o) { continue; }  // omitted
                    struct wk_chunk_s * t = wk_find(o);
                    if (!t) { WK_FAIL("fsr index %" PRIi64 " entry %u is not a chunk", c->off, k); continue; }
                    uint8_t want_tag = (level == 1) ? JLS_TAG_TRACK_FSR_DATA : JLS_TAG_TRACK_FSR_INDEX;
                    uint16_t want_meta = signal_id | (uint16_t) ((level - 1) << 12);
                    if ((t->h.tag != want_tag) || (t->h.chunk_meta != want_meta)) {
                        WK_FAIL("fsr index %" PRIi64 " level %d entry %u leads to tag 0x%02x meta 0x%04x", c->off, level, k, t->h.tag, t->h.chunk_meta);
                        continue;
                    }
                    int64_t ts = wk_payload_timestamp(t);
                    if ((level == 1) && (ts != (ph.timestamp + (int64_t) k * wk_samples_per_data[signal_id & 0xff]))) {
                        WK_FAIL("fsr index %" PRIi64 " entry %u timestamp %" PRIi64, c->off, k, ts);
                    } else if ((k == 0) && (ts != ph.timestamp)) {
                        WK_FAIL("fsr index %" PRIi64 " entry 0 timestamp", c->off);
                    } else if (k && (ts <= t_prev)) {
                        WK_FAIL("fsr index %" PRIi64 " entry %u timestamp not increasing", c->off, k);
                    }
                    t_prev = ts;
                }
            } else {
                if (c->h.payload_length != (sizeof(ph) + 16 * (size_t) ph.entry_count)) { WK_FAIL("ts index %" PRIi64 " length", c->off); continue; }
                for (uint32_t k = 0; k < ph.entry_count; ++k) {
                    struct jls_index_entry_s e;
                    memcpy(&e, c->p + sizeof(ph) + 16 * (size_t) k, 16);
                    struct wk_chunk_s * t = wk_find((int64_t) e.offset);
                    if (!t) { WK_FAIL("ts index %" PRIi64 " entry %u is not a chunk", c->off, k); continue; }
                    uint8_t want_tag = tag_base | ((level == 1) ? JLS_TRACK_CHUNK_DATA : JLS_TRACK_CHUNK_INDEX);
                    uint16_t want_meta = signal_id | (uint16_t) ((level - 1) << 12);
                    if ((t->h.tag != want_tag) || (t->h.chunk_meta != want_meta)) {
                        WK_FAIL("ts index %" PRIi64 " level %d entry %u leads to tag 0x%02x meta 0x%04x", c->off, level, k, t->h.tag, t->h.chunk_meta);
                    } else if (wk_payload_timestamp(t) != e.timestamp) {
                        WK_FAIL("ts index %" PRIi64 " level %d entry %u timestamp mismatch", c->off, level, k);
                    }
                }
            }
        }
    }
    printf("walk %s: %zu chunks, %d violation(s)\n", path, wk_count, wk_fail_count);
    return wk_fail_count;
}

/* ---------------------------------------------------------------------- */
/* Candidate violations in the UNMODIFIED library.                          */
#include "jls/writer.h"
#include "jls/reader.h"
#include "jls/threaded_writer.h"
#include <unistd.h>

#define CHECK(x) do { int32_t rc__ = (x); if (rc__) { printf("FAILED %s => %d (line %d)\n", #x, (int) rc__, __LINE__); return 2; } } while (0)

static const struct jls_source_def_s SRC = {
    .source_id = 1, .name = "src", .vendor = "v", .model = "m", .version = "1", .serial_number = "sn",
};

static const struct jls_signal_def_s SIG = {
    .signal_id = 3, .source_id = 1, .signal_type = JLS_SIGNAL_TYPE_FSR, .data_type = JLS_DATATYPE_F32,
    .sample_rate = 1000, .samples_per_data = 1040, .sample_decimate_factor = 104,
    .entries_per_summary = 200, .summary_decimate_factor = 10,
    .annotation_decimate_factor = 100, .utc_decimate_factor = 100,
    .name = "sig", .units = "V",
};

static int copy_file(const char * src, const char * dst, int64_t cut) {
    FILE * a = fopen(src, "rb");
    FILE * b = fopen(dst, "wb");
    if (!a || !b) { return 1; }
    fseek(a, 0, SEEK_END);
    int64_t sz = ftell(a) - cut;
    fseek(a, 0, SEEK_SET);
    uint8_t * buf = malloc((size_t) sz);
    if ((int64_t) fread(buf, 1, (size_t) sz, a) != sz) { return 1; }
    if ((int64_t) fwrite(buf, 1, (size_t) sz, b) != sz) { return 1; }
    free(buf);
    fclose(a);
    fclose(b);
    return 0;
}

// A: crash in the middle of writing an FSR data chunk (file cut 100 bytes short)
static int case_a(const char * path, const char * crash) {
    static float x[1040];
    for (int i = 0; i < 1040; ++i) { x[i] = (float) (i % 13); }
    struct jls_wr_s * wr = NULL;
    CHECK(jls_wr_open(&wr, path));
    CHECK(jls_wr_source_def(wr, &SRC));
    CHECK(jls_wr_signal_def(wr, &SIG));
    for (int i = 0; i < 5; ++i) {
        CHECK(jls_wr_fsr_f32(wr, 3, i * 1040, x, 1040));
    }
    if (copy_file(path, crash, 100)) { return 2; }
    CHECK(jls_wr_close(wr));
    struct jls_rd_s * rd = NULL;
    CHECK(jls_rd_open(&rd, crash));
    jls_rd_close(rd);
    return walk_file(crash);
}

// B: no FSR signal; annotations on the global signal 0, then user data, then crash
static int case_b(const char * path, const char * crash) {
    struct jls_wr_s * wr = NULL;
    CHECK(jls_wr_open(&wr, path));
    for (int i = 0; i < 5; ++i) {
        CHECK(jls_wr_annotation(wr, 0, i * 1000, 1.0f, JLS_ANNOTATION_TYPE_TEXT, 0,
                                JLS_STORAGE_TYPE_STRING, (const uint8_t *) "note", 0));
    }
    CHECK(jls_wr_user_data(wr, 1, JLS_STORAGE_TYPE_STRING, (const uint8_t *) "user data 1", 0));
    CHECK(jls_wr_user_data(wr, 2, JLS_STORAGE_TYPE_STRING, (const uint8_t *) "user data 2", 0));
    if (copy_file(path, crash, 0)) { return 2; }
    CHECK(jls_wr_close(wr));
    struct jls_rd_s * rd = NULL;
    CHECK(jls_rd_open(&rd, crash));
    jls_rd_close(rd);
    return walk_file(crash);
}

static int anno_bad;
static int anno_count;
static int32_t on_anno(void * user_data, const struct jls_annotation_s * a) {
    (void) user_data;
    ++anno_count;
    if ((a->storage_type != JLS_STORAGE_TYPE_STRING) || strcmp((const char *) a->data, "note")) {
        printf("  annotation text read back as \"%.20s\" (data_size %u)\n", (const char *) a->data, a->data_size);
        ++anno_bad;
    }
    return 0;
}

// C: threaded writer, string annotation with data_size = 0 as the API documents
static int case_c(const char * path) {
    struct jls_twr_s * wr = NULL;
    static uint8_t filler[64];
    memset(filler, 'Z', sizeof(filler) - 1);
    CHECK(jls_twr_open(&wr, path));
    CHECK(jls_twr_user_data(wr, 1, JLS_STORAGE_TYPE_BINARY, filler, sizeof(filler)));
    CHECK(jls_twr_flush(wr));
    CHECK(jls_twr_annotation(wr, 0, 1000, 1.0f, JLS_ANNOTATION_TYPE_TEXT, 0,
                             JLS_STORAGE_TYPE_STRING, (const uint8_t *) "note", 0));
    CHECK(jls_twr_close(wr));
    int rv = walk_file(path);
    struct jls_rd_s * rd = NULL;
    CHECK(jls_rd_open(&rd, path));
    anno_bad = 0;
    anno_count = 0;
    CHECK(jls_rd_annotations(rd, 0, 0, on_anno, NULL));
    jls_rd_close(rd);
    if (anno_count != 1) { printf("  %d annotations\n", anno_count); ++rv; }
    return rv + anno_bad;
}

int main(void) {
    char path[256], crash[256];
    snprintf(path, sizeof(path), "/tmp/c05_ex_%d.jls", (int) getpid());
    snprintf(crash, sizeof(crash), "/tmp/c05_ex_%d_crash.jls", (int) getpid());
    int a, b, c;
    printf("case A (crash mid data chunk):\n"); a = case_a(path, crash);
    printf("case B (signal 0 annotations + user data, crash):\n"); b = case_b(path, crash);
    printf("case C (threaded string annotation, data_size 0):\n"); c = case_c(path);
    remove(path);
    remove(crash);
    printf("A=%d B=%d C=%d\n", a, b, c);
    return (a || b || c) ? 1 : 0;
}
