#!/bin/sh
# Build the library objects from the tree this is run in plus demo.c, then run the demo.
# Usage (from the worktree root):  sh seed_out/<name>/run.sh
set -e
HERE=$(cd "$(dirname "$0")" && pwd)
ROOT=$(pwd)
TMP=$(mktemp -d /tmp/c05_demo.XXXXXX)
trap 'rm -rf "$TMP"' EXIT
SRCS="bit_shift buffer datatype copy core crc32c ec log msg_ring_buffer raw tmap reader statistics threaded_writer track wr_fsr wr_ts writer backend_posix"
for s in $SRCS; do
    cc -std=gnu99 -O1 -Wall -Wextra -DJLS_OPTIMIZE_CRC_DISABLE=1 -I"$ROOT/include" -I"$ROOT/include_prv" \
        -c "$ROOT/src/$s.c" -o "$TMP/$s.o"
done
cc -std=gnu99 -O1 -Wall -Wextra -I"$ROOT/include" -c "$HERE/demo.c" -o "$TMP/demo.o"
cc -o "$TMP/demo" "$TMP"/*.o -lm -lpthread
set +e
timeout 300 "$TMP/demo"
rc=$?
exit $rc
