#!/bin/sh
# Build the library objects from the current tree plus the demo into a temp dir, run the demo.
set -e
HERE=$(cd "$(dirname "$0")" && pwd)
ROOT=$(pwd)
T=$(mktemp -d /tmp/jls_seed_demo4.XXXXXX)
trap 'rm -rf "$T"' EXIT
CFLAGS="-O2 -g -std=gnu99 -I$ROOT/include -I$ROOT/include_prv -DJLS_OPTIMIZE_CRC_DISABLE=1"
for f in bit_shift buffer datatype copy core crc32c ec log msg_ring_buffer raw tmap reader \
         statistics threaded_writer track wr_fsr wr_ts writer backend_posix; do
    cc $CFLAGS -c "$ROOT/src/$f.c" -o "$T/$f.o"
done
cc $CFLAGS "$HERE/demo.c" "$T"/*.o -o "$T/demo" -lm -lpthread
set +e
timeout 300 "$T/demo" "$T/demo.jls"
rc=$?
echo "exit code: $rc"
exit $rc
