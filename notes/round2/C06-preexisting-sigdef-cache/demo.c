/*
 * Pre-existing (unmodified library) violation candidate:
 * jls_twr_signal_def() updates its cached sample size (fsr_entry_size_bits)
 * BEFORE calling jls_wr_signal_def() and does not restore it when that call
 * fails.  A rejected duplicate definition with a different data type
 * therefore changes how many payload bytes later, accepted jls_twr_fsr()
 * calls copy into the queue; the writer thread then reads past the end of
 * each message (bytes of neighbouring messages / stale queue memory).
 */
#include "jls/threaded_writer.h"
#include "jls/reader.h"
#include "jls/format.h"
#include <stdio.h>
#include <stdlib.h>
#include <string.h>

static const struct jls_source_def_s SOURCE_1 = {
        .source_id = 1, .name = "s", .vendor = "v", .model = "m", .version = "1", .serial_number = "1",
};

static struct jls_signal_def_s SIGNAL_5 = {
        .signal_id = 5, .source_id = 1, .signal_type = JLS_SIGNAL_TYPE_FSR, .data_type = JLS_DATATYPE_F32,
        .sample_rate = 100000, .samples_per_data = 1000, .sample_decimate_factor = 100,
        .entries_per_summary = 200, .summary_decimate_factor = 100,
        .annotation_decimate_factor = 100, .utc_decimate_factor = 100,
        .name = "sig", .units = "A",
};

#define BLOCK (1000)
#define BLOCKS (50)

int main(int argc, char * argv[]) {
    const char * path = (argc > 1) ? argv[1] : "/tmp/jls_seed_sigdef_cache.jls";
    struct jls_twr_s * wr = NULL;
    static float x[BLOCK * BLOCKS];
    static float y[BLOCK * BLOCKS];
    for (int i = 0; i < BLOCK * BLOCKS; ++i) {
        x[i] = 1.0f + (float) i;
    }
    if (jls_twr_open(&wr, path) || jls_twr_source_def(wr, &SOURCE_1) || jls_twr_signal_def(wr, &SIGNAL_5)) {
        printf("open/def failed\n");
        return 2;
    }
    struct jls_signal_def_s dup = SIGNAL_5;
    dup.data_type = JLS_DATATYPE_U8;
    int32_t rc = jls_twr_signal_def(wr, &dup);
    printf("duplicate signal_def returned %d (error expected: the call leaves no trace)\n", (int) rc);
    if (0 == rc) {
        return 2;
    }
    for (int i = 0; i < BLOCKS; ++i) {
        if (jls_twr_fsr_f32(wr, 5, i * BLOCK, x + i * BLOCK, BLOCK)) {
            printf("fsr rejected\n");
            return 2;
        }
    }
    jls_twr_close(wr);

    struct jls_rd_s * rd = NULL;
    int64_t length = 0;
    if (jls_rd_open(&rd, path) || jls_rd_fsr_length(rd, 5, &length)) {
        printf("FAIL: read open\n");
        return 1;
    }
    printf("length=%lld expected=%d\n", (long long) length, BLOCK * BLOCKS);
    int fail = (length != BLOCK * BLOCKS);
    if (!fail) {
        fail = jls_rd_fsr_f32(rd, 5, 0, y, BLOCK * BLOCKS) ? 1 : 0;
    }
    if (!fail) {
        for (int i = 0; i < BLOCK * BLOCKS; ++i) {
            if (memcmp(&x[i], &y[i], sizeof(float))) {
                printf("sample %d: wrote %f read %f\n", i, (double) x[i], (double) y[i]);
                fail = 1;
                break;
            }
        }
    }
    jls_rd_close(rd);
    remove(path);
    printf(fail ? "FAIL\n" : "PASS\n");
    return fail;
}
