/*
 * Inputs for which the UNMODIFIED library already violates C01.
 * Each case writes one FSR signal (first sample id 0, one write call), closes,
 * reopens and checks the reported length and a few windows.
 * Exit code = number of violating cases (0 would mean none).
 */
#include "jls/writer.h"
#include "jls/reader.h"
#include "jls/format.h"
#include <stdio.h>
#include <stdlib.h>
#include <string.h>
#include <stdint.h>
#include <unistd.h>

#define PATH "c01_base.jls"
#define SIG 3
#define N_MAX 400000

static uint8_t src[N_MAX];
static uint8_t got[N_MAX + 64];
static int violations = 0;

static uint32_t rng_state = 521288629u;
static uint32_t rng(void) {
    rng_state ^= rng_state << 13; rng_state ^= rng_state >> 17; rng_state ^= rng_state << 5;
    return rng_state;
}

static int sample(const uint8_t * p, int64_t idx, int bits) {
    if (bits == 1) { return (p[idx >> 3] >> (idx & 7)) & 1; }
    if (bits == 4) { return (p[idx >> 1] >> ((idx & 1) * 4)) & 0xf; }
    return p[idx];   // 8-bit
}

struct win_s { int64_t start; int64_t len; };

static void run(const char * name, uint32_t dtype, int bits, int64_t n, uint32_t spd, uint32_t sdf, uint32_t eps,
                const struct win_s * wins, int win_count) {
    const struct jls_source_def_s source = {
        .source_id = 1, .name = "src", .vendor = "v", .model = "m", .version = "1", .serial_number = "1",
    };
    struct jls_signal_def_s signal = {
        .signal_id = SIG, .source_id = 1, .signal_type = JLS_SIGNAL_TYPE_FSR, .data_type = dtype,
        .sample_rate = 1000, .samples_per_data = spd, .sample_decimate_factor = sdf,
        .entries_per_summary = eps, .summary_decimate_factor = 0, .name = "sig", .units = "A",
    };
    int bad = 0;
    struct jls_wr_s * wr = NULL;
    if (jls_wr_open(&wr, PATH)) { printf("jls_wr_open failed\n"); exit(100); }
    if (jls_wr_source_def(wr, &source) || jls_wr_signal_def(wr, &signal)) { printf("def failed\n"); exit(100); }
    if (jls_wr_fsr(wr, SIG, 0, src, (uint32_t) n)) { printf("jls_wr_fsr failed\n"); exit(100); }
    if (jls_wr_close(wr)) { printf("jls_wr_close failed\n"); exit(100); }

    struct jls_rd_s * rd = NULL;
    int32_t rc = jls_rd_open(&rd, PATH);
    if (rc) {
        printf("  jls_rd_open returned %d\n", rc);
        ++bad;
    } else {
        int64_t length = -1;
        rc = jls_rd_fsr_length(rd, SIG, &length);
        if (rc || (length != n)) {
            printf("  jls_rd_fsr_length rc=%d length=%lld, wrote %lld samples\n", rc, (long long) length, (long long) n);
            ++bad;
        }
        for (int w = 0; (w < win_count) && (length == n); ++w) {
            int64_t start = wins[w].start;
            int64_t len = wins[w].len;
            memset(got, 0xA5, sizeof(got));
            rc = jls_rd_fsr(rd, SIG, start, got, len);
            if (rc) {
                printf("  jls_rd_fsr(start=%lld, len=%lld) returned %d\n", (long long) start, (long long) len, rc);
                ++bad;
                continue;
            }
            for (int64_t i = 0; i < len; ++i) {
                if (sample(src, start + i, bits) != sample(got, i, bits)) {
                    printf("  window start=%lld len=%lld: sample %lld is 0x%x, wrote 0x%x\n", (long long) start, (long long) len,
                           (long long) (start + i), sample(got, i, bits), sample(src, start + i, bits));
                    ++bad;
                    break;
                }
            }
        }
        jls_rd_close(rd);
    }
    remove(PATH);
    printf("%s %s\n", bad ? "VIOLATION" : "ok       ", name);
    violations += bad ? 1 : 0;
}

static void fill_random(void) {
    for (int i = 0; i < N_MAX; ++i) { src[i] = (uint8_t) (rng() >> 7); }
    for (int i = 0; i < N_MAX; i += 8) { src[i] = 0x12; src[i + 1] = 0xED; }  // never constant
}

int main(void) {
    setvbuf(stdout, NULL, _IONBF, 0);
    alarm(60);

    // 1. a signal shorter than one level-1 summary entry (U8 default: 1024 samples) cannot be read at all
    fill_random();
    { struct win_s w[] = {{0, 100}, {99, 1}};
      run("U8, 100 samples, default definition (shorter than one summary entry)", JLS_DATATYPE_U8, 8, 100, 0, 0, 0, w, 2); }

    // 2. sub-byte types: the trailing partial byte is never stored when the sample count is not a byte multiple
    fill_random();
    { struct win_s w[] = {{0, 300007}, {300000, 7}};
      run("U1, 300007 samples (tail bits of the last partial byte)", JLS_DATATYPE_U1, 1, 300007, 0, 0, 0, w, 2); }
    fill_random();
    { struct win_s w[] = {{0, 70001}, {70000, 1}};
      run("U4, 70001 samples (last nibble)", JLS_DATATYPE_U4, 4, 70001, 0, 0, 0, w, 2); }

    // 3. sub-byte types: window with a byte-unaligned start that crosses a data chunk boundary (65536)
    fill_random();
    { struct win_s w[] = {{0, 131072}, {65531, 5}, {3, 70000}};
      run("U1, 131072 samples, window start=3 len=70000 crossing the chunk boundary", JLS_DATATYPE_U1, 1, 131072, 0, 0, 0, w, 3); }

    // 4. signed <= 8-bit types: a constant non-zero chunk (not the first) is omitted and read back as zeros
    fill_random();
    memset(src + 2048, 0x33, 1024);
    { struct win_s w[] = {{0, 4096}, {2048, 1024}};
      run("I8 with a constant 0x33 chunk in the middle", JLS_DATATYPE_I8, 8, 4096, 1024, 32, 640, w, 2); }

    // 5. a constant, partial final chunk is omitted and the length falls back to the summary granularity
    fill_random();
    memset(src + 3072, 0x07, 1024);
    { struct win_s w[] = {{0, 3072 + 100}};
      run("U8 ending in a constant partial chunk (3072 + 100 samples)", JLS_DATATYPE_U8, 8, 3072 + 100, 1024, 32, 640, w, 1); }

    printf("%d violating cases\n", violations);
    return violations;
}
