#!/bin/sh
# Builds the library objects from the current tree plus demo.c into a temp dir and runs the demo.
set -e
HERE=$(cd "$(dirname "$0")" && pwd)
ROOT=$(pwd)
TMP=$(mktemp -d /tmp/jls_seed_XXXXXX)
trap 'rm -rf "$TMP"' EXIT
SRCS=""
for f in "$ROOT"/src/*.c; do
    case "$f" in
        */backend_win.c|*/crc32c_*.c) ;;
        *) SRCS="$SRCS $f" ;;
    esac
done
CRCFLAG=""
case "$(uname -m)" in
    x86_64|i?86) CRCFLAG="-msse4.2" ;;
    aarch64|arm64) CRCFLAG="-march=armv8-a+crc" ;;
esac
cc -std=gnu99 -O1 -g $CRCFLAG -D__FILENAME__=__FILE__ \
    -I"$ROOT/include" -I"$ROOT/include_prv" \
    -o "$TMP/demo" "$HERE/demo.c" $SRCS -lm -lpthread
cd "$TMP"
set +e
timeout 60 ./demo
rc=$?
exit $rc
