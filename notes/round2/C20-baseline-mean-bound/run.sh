#!/bin/sh
# Build library objects from the current tree + demo into a temp dir, run demo.
set -e
HERE=$(cd "$(dirname "$0")" && pwd)
ROOT=$(cd "$HERE/../.." && pwd)
T=$(mktemp -d)
trap 'rm -rf "$T"' EXIT
CFLAGS="-std=gnu99 -O2 -Wall -Wextra -Wpedantic -Werror -fPIC -DJLS_OPTIMIZE_CRC_DISABLE=1 -I$ROOT/include -I$ROOT/include_prv"
OBJS=""
for f in bit_shift buffer datatype copy core crc32c ec log msg_ring_buffer raw tmap reader statistics threaded_writer track wr_fsr wr_ts writer backend_posix; do
    cc $CFLAGS -D__FILENAME__="\"$f.c\"" -c "$ROOT/src/$f.c" -o "$T/$f.o"
    OBJS="$OBJS $T/$f.o"
done
cc -std=gnu99 -O2 -Wall -Wextra -I"$ROOT/include" "$HERE/demo.c" $OBJS -lm -lpthread -o "$T/demo"
set +e
timeout 120 "$T/demo"
rc=$?
echo "demo exit code: $rc"
exit $rc
