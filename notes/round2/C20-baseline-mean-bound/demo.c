#include "jls/statistics.h"
#include <stdio.h>
int main(void) {
    int rc = 0;
    double x[10000];
    for (int n = 1; n <= 100; ++n) {
        for (int i = 0; i < n; ++i) x[i] = 0.1;
        struct jls_statistics_s s;
        jls_statistics_compute_f64(&s, x, n);
        if (!(s.min <= s.mean && s.mean <= s.max)) { printf("compute n=%d mean=%.17g min=%.17g\n", n, s.mean, s.min); rc = 1; break;}
    }
    for (int n = 2; n <= 100; ++n) {
        for (int sp = 1; sp < n; ++sp) {
            struct jls_statistics_s a, b, t;
            jls_statistics_reset(&a); jls_statistics_reset(&b);
            for (int i = 0; i < n; ++i) jls_statistics_add(i < sp ? &a : &b, 0.1);
            jls_statistics_combine(&t, &a, &b);
            if (!(t.min <= t.mean && t.mean <= t.max)) { printf("combine n=%d sp=%d mean=%.17g min=%.17g s=%g\n", n, sp, t.mean, t.min, t.s); rc = 1; goto done;}
        }
    }
done:
    return rc;
}
