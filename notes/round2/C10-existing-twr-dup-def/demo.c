#include "jls/writer.h"
#include "jls/reader.h"
#include "jls/threaded_writer.h"
#include <stdio.h>
#include <stdlib.h>
#include <string.h>
#include <stdint.h>

static const struct jls_source_def_s SRC = {.source_id=1,.name="s",.vendor="v",.model="m",.version="1",.serial_number="1"};

int main(int argc, char ** argv) {
    const char * path = argv[1];
    int which = argc > 2 ? atoi(argv[2]) : 0;
    (void) which;
    // (a) twr duplicate def with different data type
    struct jls_twr_s * t;
    if (jls_twr_open(&t, path)) return 2;
    jls_twr_source_def(t, &SRC);
    struct jls_signal_def_s d = {.signal_id=1,.source_id=1,.signal_type=JLS_SIGNAL_TYPE_FSR,.data_type=JLS_DATATYPE_U8,.sample_rate=1000,.name="a",.units="u"};
    printf("def %d\n", jls_twr_signal_def(t, &d));
    d.data_type = JLS_DATATYPE_F64;
    printf("dup def %d\n", jls_twr_signal_def(t, &d));
    uint8_t * data = malloc(1000);
    memset(data, 1, 1000);
    printf("fsr %d\n", jls_twr_fsr(t, 1, 0, data, 1000));
    jls_twr_close(t);
    free(data);
    return 0;
}
