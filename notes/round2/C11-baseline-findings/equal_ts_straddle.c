// UNMODIFIED library: a run of equal timestamps that straddles a level-1 index-chunk boundary
// loses the members of the run that sit at the end of the earlier chunk when seeking to that
// timestamp.  annotation_decimate_factor = 2, timestamps {0, 0, 0, 10, 10}: level-1 index chunks
// are {#0,#1} {#2,#3} {#4}; the level-2 index holds first timestamps {0, 0, 10}; seeking 10 hits
// the "== timestamp" entry (chunk {#4}) in jls_core_ts_seek and starts at #4, omitting #3.
#include "jls/writer.h"
#include "jls/reader.h"
#include <stdio.h>
#include <stdlib.h>
#include <math.h>
static int first = -1, count;
static int32_t cbk(void * u, const struct jls_annotation_s * a) { (void) u; if (!count++) first = atoi((const char *) a->data); return 0; }
int main(void) {
    static const struct jls_source_def_s src = {.source_id=1, .name="s", .vendor="v", .model="m", .version="1", .serial_number="n"};
    static const struct jls_signal_def_s sig = {.signal_id=1, .source_id=1, .signal_type=JLS_SIGNAL_TYPE_VSR,
        .data_type=JLS_DATATYPE_F32, .annotation_decimate_factor=2, .name="a", .units="A"};
    static const int64_t ts[5] = {0, 0, 0, 10, 10};
    struct jls_wr_s * wr; struct jls_rd_s * rd; char txt[8];
    if (jls_wr_open(&wr, "equal_ts.jls") || jls_wr_source_def(wr, &src) || jls_wr_signal_def(wr, &sig)) return 2;
    for (int i = 0; i < 5; ++i) {
        snprintf(txt, sizeof(txt), "%d", i);
        if (jls_wr_annotation(wr, 1, ts[i], NAN, JLS_ANNOTATION_TYPE_TEXT, 0, JLS_STORAGE_TYPE_STRING, (const uint8_t *) txt, 0)) return 2;
    }
    if (jls_wr_close(wr) || jls_rd_open(&rd, "equal_ts.jls")) return 2;
    if (jls_rd_annotations(rd, 1, 10, cbk, NULL)) return 2;
    jls_rd_close(rd); remove("equal_ts.jls");
    printf("seek 10: first delivered #%d, count %d (expected first <= #3)\n", first, count);
    return (first <= 3 && first >= 2) ? 0 : 1;
}
