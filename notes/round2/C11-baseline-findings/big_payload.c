// UNMODIFIED library: an annotation whose chunk payload exceeds JLS_BUF_DEFAULT_SIZE (1 MiB) crashes
// the writer: jls_buf_realloc() replaces buf->start but leaves buf->cur / buf->end pointing into the
// old allocation, so the following memcpy in jls_buf_wr_bin writes through a dangling pointer.
// usage: big_payload [payload_bytes]   (default 3000000; 1048570 already fails, 1000000 passes)
#include "jls/writer.h"
#include "jls/reader.h"
#include <stdio.h>
#include <stdlib.h>
#include <string.h>
static uint8_t * ref; static uint32_t refsz; static int seen;
static int32_t cbk(void * u, const struct jls_annotation_s * a) { (void) u;
    if (a->data_size != refsz || memcmp(a->data, ref, refsz)) { printf("payload mismatch\n"); exit(1); } seen++; return 0; }
int main(int argc, char ** argv) {
    refsz = (argc > 1) ? (uint32_t) atoi(argv[1]) : 3000000;
    ref = malloc(refsz); for (uint32_t i = 0; i < refsz; ++i) ref[i] = (uint8_t) (i * 31 + (i >> 8));
    struct jls_wr_s * wr; struct jls_rd_s * rd;
    if (jls_wr_open(&wr, "big.jls")) return 2;
    if (jls_wr_annotation(wr, 0, 5, 1.0f, JLS_ANNOTATION_TYPE_USER, 0, JLS_STORAGE_TYPE_BINARY, ref, refsz)) return 3;
    if (jls_wr_close(wr) || jls_rd_open(&rd, "big.jls")) return 4;
    int rc = jls_rd_annotations(rd, 0, 0, cbk, NULL);
    jls_rd_close(rd); remove("big.jls");
    printf("rc=%d seen=%d\n", rc, seen);
    return (rc || seen != 1) ? 1 : 0;
}
