#include "jls/writer.h"
#include "jls/reader.h"
#include "jls/crc32c.h"
#include "jls/format.h"
#include "jls/time.h"
#include <math.h>
#include <unistd.h>
/* ---- independent JLS structure walker (written from include/jls/format.h only) ---- */
#include <stdint.h>
#include <stdio.h>
#include <stdlib.h>
#include <string.h>

struct wchunk {
    int64_t off;
    uint64_t item_next, item_prev;
    uint8_t tag;
    uint16_t meta;
    uint32_t plen, pprev;
    const uint8_t * payload;
};

static uint8_t * w_buf;
static int64_t w_size;
static struct wchunk * w_chunks;
static size_t w_count;
static int w_errors;

#define WFAIL(...) do { printf("WALK FAIL: " __VA_ARGS__); printf("\n"); ++w_errors; } while (0)

static uint32_t w_u32(const uint8_t * p) { uint32_t v; memcpy(&v, p, 4); return v; }
static uint64_t w_u64(const uint8_t * p) { uint64_t v; memcpy(&v, p, 8); return v; }
static uint16_t w_u16(const uint8_t * p) { uint16_t v; memcpy(&v, p, 2); return v; }

static struct wchunk * w_find(int64_t off) {
    size_t lo = 0, hi = w_count;
    while (lo < hi) {
        size_t mid = (lo + hi) / 2;
        if (w_chunks[mid].off == off) return &w_chunks[mid];
        if (w_chunks[mid].off < off) lo = mid + 1; else hi = mid;
    }
    return NULL;
}

static int w_load(const char * path) {
    FILE * f = fopen(path, "rb");
    if (!f) { WFAIL("cannot open %s", path); return 1; }
    fseek(f, 0, SEEK_END);
    w_size = ftell(f);
    fseek(f, 0, SEEK_SET);
    free(w_buf);
    w_buf = malloc((size_t) w_size + 64);
    if (fread(w_buf, 1, (size_t) w_size, f) != (size_t) w_size) { fclose(f); WFAIL("read"); return 1; }
    fclose(f);
    return 0;
}

/* list class: which doubly-linked list a chunk belongs to */
static uint32_t w_list_class(const struct wchunk * c) {
    if (c->tag == 0x40) return 0x10000;   /* user data */
    if (c->tag == 0x01) return 0x20000;   /* source defs */
    if (c->tag == 0x02) return 0x30000;   /* signal list */
    if (c->tag & 0x20) {
        uint8_t kind = c->tag & 7;
        if (kind == 0 || kind == 1) return 0x30000;  /* track def/head are in the signal list */
        return 0x1000000u | ((uint32_t) c->tag << 16) | c->meta;   /* per track, signal, level */
    }
    return 0xffffffffu;
}

static int64_t w_first_ts(const struct wchunk * c) {   /* payload header timestamp */
    int64_t v; memcpy(&v, c->payload, 8); return v;
}

/* returns number of violations found */
static int w_walk(const char * path) {
    w_errors = 0;
    if (w_load(path)) return w_errors;
    static const uint8_t ident[16] = {0x6a, 0x6c, 0x73, 0x66, 0x6d, 0x74, 0x0d, 0x0a, 0x20, 0x0a, 0x20, 0x1a, 0x20, 0x20, 0xb2, 0x1c};
    if (w_size < 32) { WFAIL("file too small"); return w_errors; }
    if (memcmp(w_buf, ident, 16)) WFAIL("file identification");
    if (jls_crc32c(w_buf, 28) != w_u32(w_buf + 28)) WFAIL("file header crc");
    if ((int64_t) w_u64(w_buf + 16) != w_size) WFAIL("file header length %lld != file size %lld", (long long) w_u64(w_buf + 16), (long long) w_size);

    free(w_chunks);
    w_chunks = malloc(sizeof(struct wchunk) * (size_t) (w_size / 32 + 1));
    w_count = 0;
    int64_t off = 32;
    uint32_t prev_plen = 0;
    while (off < w_size) {
        if (off & 7) { WFAIL("chunk at %lld not aligned", (long long) off); break; }
        if (off + 32 > w_size) { WFAIL("partial chunk header at %lld", (long long) off); break; }
        const uint8_t * h = w_buf + off;
        if (jls_crc32c(h, 28) != w_u32(h + 28)) { WFAIL("chunk header crc at %lld", (long long) off); break; }
        struct wchunk * c = &w_chunks[w_count++];
        c->off = off;
        c->item_next = w_u64(h); c->item_prev = w_u64(h + 8);
        c->tag = h[16]; c->meta = w_u16(h + 18);
        c->plen = w_u32(h + 20); c->pprev = w_u32(h + 24);
        c->payload = h + 32;
        if (h[17]) WFAIL("rsv0 nonzero at %lld", (long long) off);
        if (c->pprev != prev_plen) {
            WFAIL("chunk at %lld (tag 0x%02x): payload_prev_length %u, but the previous chunk has payload_length %u",
                  (long long) off, c->tag, c->pprev, prev_plen);
        }
        int64_t disk = 0;
        if (c->plen) {
            disk = ((int64_t) c->plen + 4 + 7) & ~7LL;
            if (off + 32 + disk > w_size) { WFAIL("payload past EOF at %lld", (long long) off); break; }
            for (int64_t k = c->plen; k < disk - 4; ++k) {
                if (c->payload[k]) { WFAIL("nonzero pad at %lld", (long long) off); break; }
            }
            if (jls_crc32c(c->payload, c->plen) != w_u32(c->payload + disk - 4)) WFAIL("payload crc at %lld", (long long) off);
        }
        prev_plen = c->plen;
        off += 32 + disk;
    }
    if (!w_count) { WFAIL("no chunks"); return w_errors; }
    if (off != w_size) WFAIL("walk ended at %lld, file size %lld", (long long) off, (long long) w_size);
    if (w_chunks[w_count - 1].tag != 0xff) WFAIL("last chunk is tag 0x%02x, not END", w_chunks[w_count - 1].tag);

    /* backward walk using payload_prev_length */
    {
        size_t i = w_count - 1;
        int64_t pos = w_chunks[i].off;
        while (pos > 32) {
            uint32_t pp = w_chunks[i].pprev;
            int64_t d = pp ? (((int64_t) pp + 4 + 7) & ~7LL) : 0;
            pos -= 32 + d;
            if (!i || w_chunks[i - 1].off != pos) { WFAIL("backward walk from %lld lands on %lld: not a chunk", (long long) w_chunks[i].off, (long long) pos); break; }
            --i;
        }
    }

    for (size_t i = 0; i < w_count; ++i) {
        struct wchunk * c = &w_chunks[i];
        if (c->tag == 0xff) continue;
        if (c->item_next) {
            struct wchunk * n = w_find((int64_t) c->item_next);
            if (!n) WFAIL("chunk %lld item_next %llu is not a chunk", (long long) c->off, (unsigned long long) c->item_next);
            else {
                if (w_list_class(n) != w_list_class(c)) WFAIL("chunk %lld (tag 0x%02x meta 0x%04x) item_next -> chunk of another list (tag 0x%02x meta 0x%04x)", (long long) c->off, c->tag, c->meta, n->tag, n->meta);
                if ((int64_t) n->item_prev != c->off) WFAIL("chunk %lld item_next target has item_prev %llu", (long long) c->off, (unsigned long long) n->item_prev);
            }
        }
        if (c->item_prev) {
            struct wchunk * p = w_find((int64_t) c->item_prev);
            if (!p) WFAIL("chunk %lld item_prev %llu is not a chunk", (long long) c->off, (unsigned long long) c->item_prev);
            else {
                if (w_list_class(p) != w_list_class(c)) WFAIL("chunk %lld item_prev -> chunk of another list", (long long) c->off);
                if ((int64_t) p->item_next != c->off) WFAIL("chunk %lld item_prev target has item_next %llu", (long long) c->off, (unsigned long long) p->item_next);
            }
        }
        if (!(c->tag & 0x20) || c->tag == 0x40) continue;
        uint8_t kind = c->tag & 7;
        uint8_t ttype = (c->tag >> 3) & 3;
        uint16_t sig = c->meta & 0x0fff;
        uint8_t level = c->meta >> 12;
        if (kind == 3) {  /* INDEX: followed by its SUMMARY */
            if (i + 1 >= w_count) WFAIL("INDEX at %lld is last chunk", (long long) c->off);
            else {
                struct wchunk * s = &w_chunks[i + 1];
                if ((s->tag != ((c->tag & ~7) | 4)) || (s->meta != c->meta)) {
                    WFAIL("INDEX at %lld (tag 0x%02x meta 0x%04x) is followed by tag 0x%02x meta 0x%04x, not its SUMMARY",
                          (long long) c->off, c->tag, c->meta, s->tag, s->meta);
                } else if (w_first_ts(s) != w_first_ts(c)) {
                    WFAIL("INDEX at %lld timestamp differs from its SUMMARY", (long long) c->off);
                }
            }
            uint32_t n = w_u32(c->payload + 8);
            if (level < 1) WFAIL("INDEX at %lld has level 0", (long long) c->off);
            for (uint32_t k = 0; k < n; ++k) {
                uint64_t eo; int64_t ets = 0; int have_ts = 0;
                if (ttype == 0) {
                    if (16 + 8 * (uint64_t) (k + 1) > c->plen) { WFAIL("INDEX at %lld entries exceed payload", (long long) c->off); break; }
                    eo = w_u64(c->payload + 16 + 8 * k);
                    if (k == 0) { ets = w_first_ts(c); have_ts = 1; }
                } else {
                    if (16 + 16 * (uint64_t) (k + 1) > c->plen) { WFAIL("INDEX at %lld entries exceed payload", (long long) c->off); break; }
                    memcpy(&ets, c->payload + 16 + 16 * k, 8); have_ts = 1;
                    eo = w_u64(c->payload + 16 + 16 * k + 8);
                }
                if (!eo) {
                    if (!(ttype == 0 && level == 1)) WFAIL("INDEX at %lld entry %u is 0", (long long) c->off, k);
                    continue;
                }
                struct wchunk * t = w_find((int64_t) eo);
                uint8_t want_tag = (c->tag & ~7) | ((level == 1) ? 2 : 3);
                uint16_t want_meta = sig | (uint16_t) ((level - 1) << 12);
                if (!t) { WFAIL("INDEX at %lld entry %u -> %llu is not a chunk", (long long) c->off, k, (unsigned long long) eo); continue; }
                if (t->tag != want_tag || t->meta != want_meta) {
                    WFAIL("INDEX at %lld entry %u -> tag 0x%02x meta 0x%04x, expected tag 0x%02x meta 0x%04x", (long long) c->off, k, t->tag, t->meta, want_tag, want_meta);
                } else if (have_ts && w_first_ts(t) != ets) {
                    WFAIL("INDEX at %lld entry %u timestamp %lld, target has %lld", (long long) c->off, k, (long long) ets, (long long) w_first_ts(t));
                }
            }
        } else if (kind == 1) {  /* HEAD */
            if (c->plen != 128) { WFAIL("HEAD at %lld payload %u", (long long) c->off, c->plen); continue; }
            for (int lvl = 0; lvl < 16; ++lvl) {
                uint64_t ho = w_u64(c->payload + 8 * lvl);
                if (!ho) continue;
                struct wchunk * t = w_find((int64_t) ho);
                uint8_t want_tag = (c->tag & ~7) | (lvl ? 3 : 2);
                uint16_t want_meta = sig | (uint16_t) (lvl << 12);
                if (!t) WFAIL("HEAD at %lld level %d -> %llu not a chunk", (long long) c->off, lvl, (unsigned long long) ho);
                else if (t->tag != want_tag || t->meta != want_meta) WFAIL("HEAD at %lld level %d -> tag 0x%02x meta 0x%04x", (long long) c->off, lvl, t->tag, t->meta);
                else if (t->item_prev) WFAIL("HEAD at %lld level %d -> chunk that is not first of its list", (long long) c->off, lvl);
            }
        }
    }
    return w_errors;
}
/* ---- end of walker ---- */

int main(void) {
    const char * PATH = "c05_existing.jls";
    struct jls_source_def_s src = {.source_id = 1, .name = "s", .vendor = "v", .model = "m", .version = "1", .serial_number = "1"};
    struct jls_signal_def_s sig = {
        .signal_id = 3, .source_id = 1, .signal_type = JLS_SIGNAL_TYPE_FSR, .data_type = JLS_DATATYPE_F32,
        .sample_rate = 1000, .name = "sig", .units = "V",
    };
    static float d[5000];
    struct jls_wr_s * wr = NULL;
    remove(PATH);
    if (jls_wr_open(&wr, PATH)) return 10;
    if (jls_wr_source_def(wr, &src)) return 11;
    if (jls_wr_signal_def(wr, &sig)) return 12;
    if (jls_wr_fsr_f32(wr, 3, 0, d, 5000)) return 13;
    if (jls_wr_close(wr)) return 14;
    if (w_walk(PATH)) return 2;
    /* writer stopped after the END chunk, before the file header was updated */
    uint8_t hdr[32];
    FILE * f = fopen(PATH, "r+b");
    if (fread(hdr, 1, 32, f) != 32) return 3;
    memset(hdr + 16, 0, 8);
    uint32_t crc = jls_crc32c(hdr, 28);
    memcpy(hdr + 28, &crc, 4);
    fseek(f, 0, SEEK_SET); fwrite(hdr, 1, 32, f); fclose(f);
    struct jls_rd_s * rd = NULL;
    int32_t rc = jls_rd_open(&rd, PATH);
    printf("jls_rd_open -> %d\n", rc);
    if (rc) return 4;
    jls_rd_close(rd);
    int errors = w_walk(PATH);
    printf("%d violations after open\n", errors);
    return errors ? 1 : 0;
}
