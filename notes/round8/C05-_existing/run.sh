#!/bin/sh
# Builds the library objects of the tree this is run from (worktree root) and the demo, then runs the demo.
set -e
HERE=$(cd "$(dirname "$0")" && pwd)
ROOT=$(pwd)
TMP=$(mktemp -d /tmp/c05demo.XXXXXX)
trap 'rm -rf "$TMP"' EXIT
CFLAGS="-O1 -g -std=gnu11 -Wall -Wextra -I$ROOT/include -I$ROOT/include_prv -DJLS_OPTIMIZE_CRC_DISABLE=1"
OBJS=""
for f in bit_shift buffer datatype copy core crc32c ec log msg_ring_buffer raw tmap reader statistics threaded_writer track wr_fsr wr_ts writer backend_posix; do
    cc $CFLAGS -c "$ROOT/src/$f.c" -o "$TMP/$f.o"
    OBJS="$OBJS $TMP/$f.o"
done
cc $CFLAGS "$HERE/demo.c" $OBJS -lm -lpthread -o "$TMP/demo"
cd "$TMP"
set +e
timeout 120 ./demo
RC=$?
echo "demo exit code: $RC"
exit $RC
