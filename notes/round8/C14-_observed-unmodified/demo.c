/*
 * C14 observation on the UNMODIFIED library (not a seeded change).
 *
 * Same write-once checker as the C14 demos.  One backend write fails once
 * (ENOSPC): the in-place rewrite of a chunk header that links the previous
 * item of a list to the chunk just appended (jls_core_update_item_head).
 * The failing API call reports the error; the application keeps writing,
 * as the threaded writer does (it only logs the error of a message).
 *
 * jls_core_update_item_head returns before it seeks back to the end of the
 * file, so the raw layer's chunk offset stays at the OLD chunk and the next
 * chunk is written over it: header fields and payload bytes of existing
 * chunks change.
 *
 * exit 0 = property held, exit 1 = violation.
 */
#define _GNU_SOURCE
#include "jls/writer.h"
#include "jls/threaded_writer.h"
#include "jls/format.h"
#include <stdio.h>
#include <stdlib.h>
#include <string.h>
#include <stdint.h>
#include <unistd.h>
#include <pthread.h>
#include <errno.h>
#include <sys/syscall.h>
#include <sys/types.h>

/* ------------------------------------------------------------------ */
/* write-once checker                                                  */
/* ------------------------------------------------------------------ */

static char g_path[512];
static uint8_t * g_shadow = NULL;
static size_t g_len = 0;
static size_t g_cap = 0;
static int g_violations = 0;
static int g_file_hdr_modified = 0;   // a write changed the file header
static long g_write_count = 0;
static pthread_mutex_t g_mutex = PTHREAD_MUTEX_INITIALIZER;

#define FILE_HDR_SZ 32
#define CHUNK_HDR_SZ 32

static void violation(const char * msg, long long offset) {
    ++g_violations;
    if (g_violations > 6) {
        return;
    }
    fprintf(stderr, "C14 VIOLATION (write #%ld): %s @ file offset %lld\n", g_write_count, msg, offset);
}

static int fd_is_target(int fd) {
    char link[64];
    char buf[512];
    if (!g_path[0] || (fd < 3)) {
        return 0;
    }
    snprintf(link, sizeof(link), "/proc/self/fd/%d", fd);
    ssize_t n = readlink(link, buf, sizeof(buf) - 1);
    if (n <= 0) {
        return 0;
    }
    buf[n] = 0;
    return 0 == strcmp(buf, g_path);
}

static size_t disk_payload(uint32_t payload_length) {
    if (!payload_length) {
        return 0;
    }
    size_t sz = (size_t) payload_length + 4;
    return (sz + 7) & ~((size_t) 7);
}

static uint32_t rd_u32(const uint8_t * p) {
    uint32_t v;
    memcpy(&v, p, 4);
    return v;
}

// is offset the start of a chunk that is completely present in the shadow?
static int is_complete_chunk(uint64_t offset) {
    size_t o = FILE_HDR_SZ;
    while ((o + CHUNK_HDR_SZ) <= g_len) {
        size_t end = o + CHUNK_HDR_SZ + disk_payload(rd_u32(g_shadow + o + 20));
        if (end > g_len) {
            return 0;
        }
        if (o == offset) {
            return 1;
        }
        o = end;
    }
    return 0;
}

// classify the change of shadow byte b (old != new), nw = the bytes being written at position pos
static void classify(size_t b, size_t pos, const uint8_t * nw, size_t n) {
    if (b < FILE_HDR_SZ) {
        g_file_hdr_modified = 1;
        return;
    }
    size_t o = FILE_HDR_SZ;
    while ((o + CHUNK_HDR_SZ) <= g_len) {
        uint8_t tag = g_shadow[o + 16];
        uint32_t plen = rd_u32(g_shadow + o + 20);
        size_t end = o + CHUNK_HDR_SZ + disk_payload(plen);
        if (b < (o + CHUNK_HDR_SZ)) {
            size_t f = b - o;
            if ((f < 16) || (f >= 28)) {
                return;  // item_next, item_prev, crc32
            }
            violation("chunk header field other than links/crc changed (tag, meta or a payload length)", (long long) b);
            return;
        }
        if (b < end) {
            int is_head = (tag & JLS_TRACK_TAG_FLAG) && ((tag & 7) == JLS_TRACK_CHUNK_HEAD);
            if (!is_head) {
                violation("payload byte of a non-HEAD chunk modified", (long long) b);
                return;
            }
            size_t p = b - (o + CHUNK_HDR_SZ);
            if (p >= plen) {
                return;  // pad or payload CRC of the head table
            }
            size_t e = o + CHUNK_HDR_SZ + (p & ~((size_t) 7));
            uint64_t v_old;
            uint64_t v_new;
            uint8_t tmp[8];
            memcpy(&v_old, g_shadow + e, 8);
            for (size_t k = 0; k < 8; ++k) {
                size_t a = e + k;
                tmp[k] = ((a >= pos) && (a < (pos + n))) ? nw[a - pos] : g_shadow[a];
            }
            memcpy(&v_new, tmp, 8);
            if (v_old != 0) {
                violation("head table entry changed from a nonzero value", (long long) e);
            } else if (!is_complete_chunk(v_new)) {
                violation("head table entry set to something that is not an existing chunk", (long long) e);
            }
            return;
        }
        o = end;
    }
    violation("modified byte is outside of any known chunk", (long long) b);
}

static void shadow_write(size_t pos, const uint8_t * buf, size_t n) {
    ++g_write_count;
    if (g_file_hdr_modified) {
        violation("write after the file header was modified: file header changed before close", (long long) pos);
        g_file_hdr_modified = 0;
    }
    if (pos > g_len) {
        violation("write beyond the end of file leaves a hole", (long long) pos);
    }
    size_t end = pos + n;
    if (end > g_cap) {
        g_cap = end * 2 + 4096;
        g_shadow = realloc(g_shadow, g_cap);
        if (!g_shadow) {
            abort();
        }
    }
    if (pos > g_len) {
        memset(g_shadow + g_len, 0, pos - g_len);
    }
    size_t overlap_end = (end < g_len) ? end : g_len;
    size_t last_entry = (size_t) -1;
    for (size_t b = pos; b < overlap_end; ++b) {
        if (g_shadow[b] != buf[b - pos]) {
            size_t key = b & ~((size_t) 7);
            if ((b >= FILE_HDR_SZ) && (key == last_entry)) {
                continue;  // one report per 8-byte unit
            }
            last_entry = key;
            classify(b, pos, buf, n);
        }
    }
    memcpy(g_shadow + pos, buf, n);
    if (end > g_len) {
        g_len = end;
    }
}

static int g_fail_countdown = 0;   // fail the n-th in-place 32-byte write
static int g_failed = 0;

ssize_t write(int fd, const void * buf, size_t count) {
    if (fd_is_target(fd)) {
        pthread_mutex_lock(&g_mutex);
        off_t pos = (off_t) syscall(SYS_lseek, fd, (off_t) 0, SEEK_CUR);
        if ((count == 32) && (pos >= 32) && ((size_t) pos < g_len) && g_fail_countdown && (0 == --g_fail_countdown)) {
            g_failed = 1;
            pthread_mutex_unlock(&g_mutex);
            errno = ENOSPC;
            return -1;
        }
        ssize_t rv = (ssize_t) syscall(SYS_write, fd, buf, count);
        if ((rv > 0) && (pos >= 0)) {
            shadow_write((size_t) pos, (const uint8_t *) buf, (size_t) rv);
        }
        pthread_mutex_unlock(&g_mutex);
        return rv;
    }
    return (ssize_t) syscall(SYS_write, fd, buf, count);
}

int ftruncate(int fd, off_t length) {
    if (fd_is_target(fd)) {
        pthread_mutex_lock(&g_mutex);
        if ((size_t) length < g_len) {
            violation("file shrinks", (long long) length);
            g_len = (size_t) length;
        }
        pthread_mutex_unlock(&g_mutex);
    }
    return (int) syscall(SYS_ftruncate, fd, length);
}

static void checker_start(const char * path) {
    pthread_mutex_lock(&g_mutex);
    if (!realpath(path, g_path)) {
        // file does not exist yet: resolve the directory
        FILE * f = fopen(path, "wb");
        if (f) {
            fclose(f);
        }
        if (!realpath(path, g_path)) {
            fprintf(stderr, "realpath failed\n");
            exit(2);
        }
    }
    g_len = 0;
    g_file_hdr_modified = 0;
    pthread_mutex_unlock(&g_mutex);
}

/* ------------------------------------------------------------------ */
/* workload                                                            */
/* ------------------------------------------------------------------ */

#define REQ(x) do { int32_t rc__ = (x); if (rc__) { \
    fprintf(stderr, "demo: %s returned %d (line %d)\n", #x, (int) rc__, __LINE__); exit(2); } } while (0)

static const struct jls_source_def_s SOURCE_1 = {
        .source_id = 1, .name = "src1", .vendor = "v", .model = "m", .version = "1", .serial_number = "sn1",
};
static const struct jls_signal_def_s SIGNAL_5 = {
        .signal_id = 5, .source_id = 1, .signal_type = JLS_SIGNAL_TYPE_FSR, .data_type = JLS_DATATYPE_F32,
        .sample_rate = 1000, .samples_per_data = 100, .sample_decimate_factor = 10,
        .entries_per_summary = 20, .summary_decimate_factor = 10,
        .name = "sig5", .units = "A",
};

static float g_samples[4096];

int main(int argc, char * argv[]) {
    const char * dir = (argc > 1) ? argv[1] : "/tmp";
    char path[400];
    struct jls_wr_s * wr = NULL;
    for (size_t i = 0; i < (sizeof(g_samples) / sizeof(g_samples[0])); ++i) {
        g_samples[i] = (float) ((i * 7919U) % 1000U) * 0.001f;
    }
    snprintf(path, sizeof(path), "%s/c14_observed.jls", dir);
    checker_start(path);
    REQ(jls_wr_open(&wr, path));
    REQ(jls_wr_source_def(wr, &SOURCE_1));
    REQ(jls_wr_signal_def(wr, &SIGNAL_5));
    int64_t sample_id = 0;
    for (int i = 0; i < 4; ++i) {
        REQ(jls_wr_fsr_f32(wr, 5, sample_id, g_samples, 500));
        sample_id += 500;
    }
    printf("before the failed write: %d violations\n", g_violations);
    g_fail_countdown = 3;  // the third header rewrite from here on
    int errors = 0;
    for (int i = 0; i < 4; ++i) {
        int32_t rc = jls_wr_fsr_f32(wr, 5, sample_id, g_samples, 500);
        if (rc) {
            ++errors;
            printf("jls_wr_fsr_f32 returned %d, the application carries on\n", (int) rc);
        }
        sample_id += 500;
    }
    jls_wr_close(wr);
    printf("write failed once: %d, api errors: %d, violations: %d\n", g_failed, errors, g_violations);
    if (g_violations) {
        printf("FAIL: write-once property violated\n");
        return 1;
    }
    printf("PASS\n");
    return 0;
}
