#!/bin/sh
# Build the library sources of the tree this is run from, plus the demo,
# into a temporary directory; run the demo.  Exit code = demo result.
# Usage (from the worktree root): sh seed_out/_observed-unmodified/run.sh
here=$(cd "$(dirname "$0")" && pwd)
root=$(pwd)
tmp=$(mktemp -d /tmp/c14_demo.XXXXXX) || exit 2
trap 'rm -rf "$tmp"' EXIT

srcs=""
for f in "$root"/src/*.c; do
    case "$(basename "$f")" in
        backend_win.c|crc32c_arm_neon.c|crc32c_intel_sse4.c|crc32c_sw.c) ;;
        *) srcs="$srcs $f" ;;
    esac
done

cc -std=gnu11 -O1 -g -DJLS_OPTIMIZE_CRC_DISABLE=1 \
    -I"$root/include" -I"$root/include_prv" \
    $srcs "$here/demo.c" -o "$tmp/demo" -lm -lpthread || exit 2

timeout 120 "$tmp/demo" "$tmp"
