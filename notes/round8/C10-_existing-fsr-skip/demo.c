/*
 * Observation on the UNMODIFIED tree (not one of the seeded changes):
 * jls_wr_fsr with a sample_id far beyond the samples written so far fills the
 * whole gap sample by sample.  For a gap of 2^62 samples the call does not
 * return in any practical time (and the file grows meanwhile): a "very large
 * window" that is neither rejected with an error code nor handled in bounded
 * time.  The demo gives the call 5 seconds.
 *
 * exit 0: the call returned (with or without an error code) within 5 s.
 * exit 1: still running after 5 s.
 */
#include "jls/writer.h"
#include "jls/format.h"
#include <signal.h>
#include <stdio.h>
#include <stdlib.h>
#include <string.h>
#include <unistd.h>

static const char * path_g;

static void on_alarm(int sig) {
    (void) sig;
    static const char msg[] = "FAIL: jls_wr_fsr still running after 5 s\n";
    if (write(1, msg, sizeof(msg) - 1)) {}
    unlink(path_g);
    _exit(1);
}

static const struct jls_source_def_s SOURCE = {
    .source_id = 1, .name = "src", .vendor = "v", .model = "m", .version = "1", .serial_number = "s",
};

static const struct jls_signal_def_s SIGNAL = {
    .signal_id = 3, .source_id = 1, .signal_type = JLS_SIGNAL_TYPE_FSR,
    .data_type = JLS_DATATYPE_U8, .sample_rate = 1000, .name = "sig", .units = "count",
};

int main(int argc, char ** argv) {
    path_g = (argc > 1) ? argv[1] : "demo_c10_skip.jls";
    uint8_t d[16];
    memset(d, 1, sizeof(d));
    struct jls_wr_s * wr = NULL;
    if (jls_wr_open(&wr, path_g) || jls_wr_source_def(wr, &SOURCE) || jls_wr_signal_def(wr, &SIGNAL)) {
        return 98;
    }
    if (jls_wr_fsr(wr, 3, 0, d, 16)) {
        return 98;
    }
    signal(SIGALRM, on_alarm);
    alarm(5);
    int32_t rc = jls_wr_fsr(wr, 3, INT64_MAX / 2, d, 16);
    alarm(0);
    printf("jls_wr_fsr returned %d\n", (int) rc);
    jls_wr_close(wr);
    remove(path_g);
    printf("PASS\n");
    return 0;
}
