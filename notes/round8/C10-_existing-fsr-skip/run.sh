#!/bin/sh
# Build the library objects of the tree this is run in (worktree root = cwd)
# together with demo.c into a temporary directory, then run the demo.
# exit code = demo result (0 = property holds, non-zero = violated)
set -u
HERE=$(cd "$(dirname "$0")" && pwd)
ROOT=$(pwd)
TMP=$(mktemp -d /tmp/jls_c10_demo.XXXXXX)
trap 'rm -rf "$TMP"' EXIT
CRC="-DJLS_OPTIMIZE_CRC_DISABLE=1"
case "$(uname -m)" in x86_64) CRC="-msse4.2";; esac
SRCS="bit_shift buffer datatype copy core crc32c ec log msg_ring_buffer raw tmap reader statistics threaded_writer track wr_fsr wr_ts writer backend_posix"
OBJS=""
for s in $SRCS; do
    gcc -std=gnu99 -O1 -g -Wall -Wextra -Wpedantic -Werror -fPIC $CRC \
        -I"$ROOT/include" -I"$ROOT/include_prv" -c "$ROOT/src/$s.c" -o "$TMP/$s.o" || exit 99
    OBJS="$OBJS $TMP/$s.o"
done
gcc -std=gnu99 -O1 -g -Wall -Wextra -I"$ROOT/include" "$HERE/demo.c" $OBJS -lm -lpthread -o "$TMP/demo" || exit 99
cd "$TMP" || exit 99
timeout 120 ./demo "$TMP/demo.jls"
rc=$?
echo "demo exit code: $rc"
exit $rc
