#!/bin/sh
# Builds the library objects from the tree this is run in (worktree root = cwd)
# and the demo into a temporary directory, then runs the demo there.
set -e
HERE=$(cd "$(dirname "$0")" && pwd)
ROOT=$(pwd)
T=$(mktemp -d)
trap 'rm -rf "$T"' EXIT
CFLAGS="-std=gnu99 -O1 -DJLS_OPTIMIZE_CRC_DISABLE=1 -I$ROOT/include -I$ROOT/include_prv"
for f in bit_shift buffer datatype copy core crc32c ec log msg_ring_buffer raw tmap \
         reader statistics threaded_writer track wr_fsr wr_ts writer backend_posix; do
    cc $CFLAGS -c "$ROOT/src/$f.c" -o "$T/$f.o"
done
cc -std=gnu99 -O1 -I"$ROOT/include" "$HERE/demo.c" "$T"/*.o -lm -lpthread -o "$T/demo"
cd "$T"
set +e
timeout 120 ./demo
rc=$?
exit $rc
