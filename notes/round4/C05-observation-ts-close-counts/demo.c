// Observation on the UNMODIFIED tree: for annotation / UTC tracks, the INDEX and
// SUMMARY chunk of a level >= 2 pair written by jls_wr_close() carry different
// entry counts: wr_ts.c commit() in COMMIT_MODE_CLOSE adds the closing lower
// level chunk to index[level + 1] but not to summary[level + 1].
// Exit 1 when an INDEX/SUMMARY pair with different entry_count is found.
#include "jls/writer.h"
#include "jls/format.h"
#include "jls/crc32c.h"
#include <stdio.h>
#include <stdlib.h>
#include <string.h>
#include <math.h>

#define PATH "ts_close_counts.jls"

static const struct jls_source_def_s SRC = {
    .source_id = 1, .name = "src", .vendor = "v", .model = "m", .version = "1", .serial_number = "s",
};

static const struct jls_signal_def_s SIG = {
    .signal_id = 3, .source_id = 1, .signal_type = JLS_SIGNAL_TYPE_FSR,
    .data_type = JLS_DATATYPE_F32, .sample_rate = 1000,
    .samples_per_data = 100, .sample_decimate_factor = 10,
    .entries_per_summary = 20, .summary_decimate_factor = 10,
    .annotation_decimate_factor = 4, .utc_decimate_factor = 4,
    .name = "sig", .units = "V",
};

static uint32_t on_disk(uint32_t n) { return n ? ((n + 4 + 7) / 8) * 8 : 0; }

#define REQ(x) do { int32_t rc__ = (x); if (rc__) { printf("%s returned %d\n", #x, (int) rc__); return 2; } } while (0)

int main(void) {
    struct jls_wr_s * wr = NULL;
    REQ(jls_wr_open(&wr, PATH));
    REQ(jls_wr_source_def(wr, &SRC));
    REQ(jls_wr_signal_def(wr, &SIG));
    for (int k = 0; k < 6; ++k) {  // one full level 1 chunk (4) + 2 pending at close
        REQ(jls_wr_annotation(wr, 3, k * 10, NAN, JLS_ANNOTATION_TYPE_TEXT, 0,
                              JLS_STORAGE_TYPE_STRING, (const uint8_t *) "x", 0));
    }
    REQ(jls_wr_close(wr));

    FILE * f = fopen(PATH, "rb");
    fseek(f, 0, SEEK_END);
    long sz = ftell(f);
    uint8_t * d = malloc((size_t) sz);
    fseek(f, 0, SEEK_SET);
    if (fread(d, 1, (size_t) sz, f) != (size_t) sz) { return 2; }
    fclose(f);
    remove(PATH);
    int errors = 0;
    long pos = sizeof(struct jls_file_header_s);
    struct jls_chunk_header_s prev;
    struct jls_payload_header_s prev_p;
    memset(&prev, 0, sizeof(prev));
    memset(&prev_p, 0, sizeof(prev_p));
    while (pos + (long) sizeof(prev) <= sz) {
        struct jls_chunk_header_s h;
        struct jls_payload_header_s p;
        memcpy(&h, d + pos, sizeof(h));
        memset(&p, 0, sizeof(p));
        if (h.payload_length >= sizeof(p)) { memcpy(&p, d + pos + sizeof(h), sizeof(p)); }
        if ((prev.tag & JLS_TRACK_TAG_FLAG) && ((prev.tag & 7) == JLS_TRACK_CHUNK_INDEX)
                && ((h.tag & 7) == JLS_TRACK_CHUNK_SUMMARY)) {
            printf("tag 0x%02x level %d: index entries=%u, summary entries=%u\n",
                   prev.tag, prev.chunk_meta >> 12, (unsigned) prev_p.entry_count, (unsigned) p.entry_count);
            if ((((prev.tag >> 3) & 3) != JLS_TRACK_TYPE_FSR) && (prev_p.entry_count != p.entry_count)) {
                ++errors;
            }
        }
        prev = h;
        prev_p = p;
        pos += (long) sizeof(h) + on_disk(h.payload_length);
    }
    free(d);
    printf("%s\n", errors ? "MISMATCH" : "OK");
    return errors ? 1 : 0;
}
