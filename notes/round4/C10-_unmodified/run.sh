#!/bin/sh
# usage (from the worktree root): sh seed_out/_unmodified/run.sh <name-without-.c>
# Builds the UNMODIFIED library sources + the named program with AddressSanitizer and runs it.
ROOT=$(pwd)
HERE=$(cd "$(dirname "$0")" && pwd)
TMP=$(mktemp -d) || exit 99
trap 'rm -rf "$TMP"' EXIT
SRCS="bit_shift buffer datatype copy core crc32c ec log msg_ring_buffer raw tmap reader statistics threaded_writer track wr_fsr wr_ts writer backend_posix"
FILES=""
for s in $SRCS; do FILES="$FILES $ROOT/src/$s.c"; done
cc -std=gnu11 -g -O1 -fsanitize=address -DJLS_OPTIMIZE_CRC_DISABLE=1 -I"$ROOT/include" -I"$ROOT/include_prv" \
    $FILES "$HERE/$1.c" -o "$TMP/prog" -lm -lpthread || exit 98
cd "$TMP" && timeout 60 ./prog 2>"$TMP/err.txt"
RC=$?
grep -v '^[EWID] ' "$TMP/err.txt" | head -12 >&2
echo "exit=$RC"
exit $RC
