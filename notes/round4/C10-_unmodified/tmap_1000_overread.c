#include "jls/writer.h"
#include "jls/reader.h"
#include <stdio.h>
#include <stdlib.h>
int main(int argc, char ** argv) {
    int n = argc > 1 ? atoi(argv[1]) : 1000;
    struct jls_wr_s * wr;
    const char * p = "e3.jls";
    if (jls_wr_open(&wr, p)) return 2;
    struct jls_source_def_s src = {.source_id=1, .name="s", .vendor="v", .model="m", .version="1", .serial_number="1"};
    if (jls_wr_source_def(wr, &src)) return 3;
    struct jls_signal_def_s sig = {.signal_id=1, .source_id=1, .signal_type=JLS_SIGNAL_TYPE_FSR, .data_type=JLS_DATATYPE_F32,
        .sample_rate=1000, .name="x", .units="V"};
    if (jls_wr_signal_def(wr, &sig)) return 4;
    static float data[100000];
    jls_wr_fsr_f32(wr, 1, 0, data, 100000);
    for (int i = 0; i < n; ++i) {
        if (jls_wr_utc(wr, 1, i * 100, 1000000LL * i)) return 5;
    }
    jls_wr_close(wr);
    struct jls_rd_s * rd;
    if (jls_rd_open(&rd, p)) return 6;
    int64_t t = 0;
    int rc = jls_rd_sample_id_to_timestamp(rd, 1, 100LL * n + 5000, &t);
    printf("rc=%d t=%ld\n", rc, (long) t);
    rc = jls_rd_sample_id_to_timestamp(rd, 1, -5000, &t);
    printf("rc=%d t=%ld\n", rc, (long) t);
    jls_rd_close(rd);
    return 0;
}
