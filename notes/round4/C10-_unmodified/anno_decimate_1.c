#include "jls/writer.h"
#include "jls/reader.h"
#include <stdio.h>
#include <string.h>
int main(void) {
    struct jls_wr_s * wr;
    if (jls_wr_open(&wr, "e1.jls")) return 2;
    struct jls_source_def_s src = {.source_id=1, .name="s", .vendor="v", .model="m", .version="1", .serial_number="1"};
    if (jls_wr_source_def(wr, &src)) return 3;
    struct jls_signal_def_s sig = {.signal_id=1, .source_id=1, .signal_type=JLS_SIGNAL_TYPE_FSR, .data_type=JLS_DATATYPE_F32,
        .sample_rate=1000, .annotation_decimate_factor=1, .utc_decimate_factor=1, .name="x", .units="V"};
    int rc = jls_wr_signal_def(wr, &sig);
    printf("def rc=%d\n", rc);
    for (int i = 0; i < 5; ++i) {
        rc = jls_wr_annotation(wr, 1, i * 10, 1.0f, JLS_ANNOTATION_TYPE_TEXT, 0, JLS_STORAGE_TYPE_STRING, (const uint8_t *) "hi", 0);
        printf("anno %d rc=%d\n", i, rc);
    }
    jls_wr_close(wr);
    return 0;
}
