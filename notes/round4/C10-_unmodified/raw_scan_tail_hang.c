#include "jls/writer.h"
#include "jls/raw.h"
#include <stdio.h>
#include <unistd.h>
#include <sys/stat.h>
int main(void) {
    struct jls_wr_s * wr;
    const char * p = "e2.jls";
    if (jls_wr_open(&wr, p)) return 2;
    jls_wr_close(wr);
    struct stat st; stat(p, &st);
    printf("size=%ld\n", (long) st.st_size);
    alarm(5);
    for (int back = 8; back <= 64; back += 8) {
        struct jls_raw_s * raw;
        if (jls_raw_open(&raw, p, "r")) return 3;
        int rc = jls_raw_chunk_seek(raw, st.st_size - back);
        printf("back=%d seek rc=%d\n", back, rc); fflush(stdout);
        rc = jls_raw_chunk_scan(raw);
        printf("scan rc=%d tell=%ld\n", rc, (long) jls_raw_chunk_tell(raw)); fflush(stdout);
        jls_raw_close(raw);
    }
    return 0;
}
