#!/bin/sh
# Builds the library sources of the tree this script lives in plus demo.c
# into a temporary directory and runs the demo.  Exit code = demo result.
set -e
HERE=$(cd "$(dirname "$0")" && pwd)
ROOT=$(cd "$HERE/../.." && pwd)
T=$(mktemp -d)
trap 'rm -rf "$T"' EXIT
SRCS=""
for f in bit_shift buffer datatype copy core crc32c ec log msg_ring_buffer raw tmap \
         reader statistics threaded_writer track wr_fsr wr_ts writer backend_posix; do
    SRCS="$SRCS $ROOT/src/$f.c"
done
cc -std=gnu99 -O1 -Wall -Wextra -DJLS_OPTIMIZE_CRC_DISABLE=1 \
   -I"$ROOT/include" -I"$ROOT/include_prv" \
   $SRCS "$HERE/demo.c" -o "$T/demo" -lm -lpthread
cd "$T"
set +e
timeout 300 ./demo
rc=$?
exit $rc
