/*
 * C02 demo: summaries of a u32 signal that carries a large offset.
 *
 * A u32 "counter-like" signal (values around 3e9 with a few counts of
 * variation) is written and closed.  Single-window statistics requests that
 * are served from the summaries must return a std between
 * sqrt((d-1)/d) * s and s, where s is the sample standard deviation of the
 * written samples of the window and d the level-1 decimation.  min, max and
 * mean are checked as well.
 *
 * Exit code 0 = property holds, 1 = violated, 2 = setup problem.
 */
#include "jls/writer.h"
#include "jls/reader.h"
#include "jls/format.h"
#include <inttypes.h>
#include <math.h>
#include <stdio.h>
#include <stdlib.h>
#include <string.h>

#define FILENAME "c02_onepass.jls"
#define N (200000)

static const struct jls_source_def_s SOURCE = {
    .source_id = 1, .name = "src", .vendor = "v", .model = "m", .version = "1", .serial_number = "1",
};

static struct jls_signal_def_s SIGNAL = {
    .signal_id = 1,
    .source_id = 1,
    .signal_type = JLS_SIGNAL_TYPE_FSR,
    .data_type = JLS_DATATYPE_U32,
    .sample_rate = 1000,
    .samples_per_data = 64,
    .sample_decimate_factor = 16,
    .entries_per_summary = 20,
    .summary_decimate_factor = 10,
    .annotation_decimate_factor = 100,
    .utc_decimate_factor = 100,
    .name = "counter",
    .units = "count",
};

static uint32_t samples[N];
static int failures = 0;

#define REQUIRE(x) do { if (!(x)) { printf("SETUP FAILED: %s (line %d)\n", #x, __LINE__); exit(2); } } while (0)

static void reference(int64_t start, int64_t count, double * mean, double * std, double * mn, double * mx) {
    long double sum = 0.0L;
    *mn = samples[start];
    *mx = samples[start];
    for (int64_t i = start; i < start + count; ++i) {
        double v = samples[i];
        sum += v;
        if (v < *mn) { *mn = v; }
        if (v > *mx) { *mx = v; }
    }
    long double m = sum / count;
    long double ss = 0.0L;
    for (int64_t i = start; i < start + count; ++i) {
        long double dv = (long double) samples[i] - m;
        ss += dv * dv;
    }
    *mean = (double) m;
    *std = (count > 1) ? (double) sqrtl(ss / (count - 1)) : 0.0;
}

static void check_single(struct jls_rd_s * rd, uint32_t d, int64_t start, int64_t incr) {
    double r[JLS_SUMMARY_FSR_COUNT];
    double mean, std, mn, mx;
    int32_t rc = jls_rd_fsr_statistics(rd, SIGNAL.signal_id, start, incr, r, 1);
    if (rc) {
        printf("FAIL start=%" PRIi64 " incr=%" PRIi64 ": rc=%d\n", start, incr, (int) rc);
        ++failures;
        return;
    }
    reference(start, incr, &mean, &std, &mn, &mx);
    double lo = sqrt((d - 1.0) / d) * std * (1.0 - 1e-6) - 1e-9;
    double hi = std * (1.0 + 1e-6) + 1e-9;
    int ok = 1;
    if (r[JLS_SUMMARY_FSR_MIN] != mn) { ok = 0; }
    if (r[JLS_SUMMARY_FSR_MAX] != mx) { ok = 0; }
    if (fabs(r[JLS_SUMMARY_FSR_MEAN] - mean) > 1e-12 * fabs(mean) + 1e-9) { ok = 0; }
    if (!(r[JLS_SUMMARY_FSR_STD] >= lo) || !(r[JLS_SUMMARY_FSR_STD] <= hi)) { ok = 0; }
    printf("%s start=%-7" PRIi64 " incr=%-7" PRIi64 " mean=%.6f (ref %.6f) min=%.0f (%.0f) max=%.0f (%.0f) std=%.6f (allowed %.6f .. %.6f)\n",
           ok ? "ok  " : "FAIL", start, incr,
           r[JLS_SUMMARY_FSR_MEAN], mean, r[JLS_SUMMARY_FSR_MIN], mn, r[JLS_SUMMARY_FSR_MAX], mx,
           r[JLS_SUMMARY_FSR_STD], lo, hi);
    if (!ok) {
        ++failures;
    }
}

int main(void) {
    struct jls_wr_s * wr = NULL;
    struct jls_rd_s * rd = NULL;

    for (int64_t i = 0; i < N; ++i) {
        uint32_t noise = (uint32_t) (((uint64_t) i * 2654435761ULL) >> 13) & 0x0f;   // 0 .. 15
        samples[i] = 3000000000U + (uint32_t) (i / 50) + noise;                        // slow ramp + noise
    }

    remove(FILENAME);
    REQUIRE(0 == jls_wr_open(&wr, FILENAME));
    REQUIRE(0 == jls_wr_source_def(wr, &SOURCE));
    REQUIRE(0 == jls_wr_signal_def(wr, &SIGNAL));
    for (int64_t i = 0; i < N; i += 1000) {
        REQUIRE(0 == jls_wr_fsr(wr, SIGNAL.signal_id, i, &samples[i], 1000));
    }
    REQUIRE(0 == jls_wr_close(wr));

    REQUIRE(0 == jls_rd_open(&rd, FILENAME));
    struct jls_signal_def_s def;
    REQUIRE(0 == jls_rd_signal(rd, SIGNAL.signal_id, &def));
    int64_t length = 0;
    REQUIRE(0 == jls_rd_fsr_length(rd, SIGNAL.signal_id, &length));
    REQUIRE(N == length);
    uint32_t d = def.sample_decimate_factor;
    printf("sample_decimate_factor=%u summary_decimate_factor=%u\n", d, def.summary_decimate_factor);

    check_single(rd, d, 0, 100);                 // raw samples
    check_single(rd, d, 0, 25 * d);              // level 1, aligned
    check_single(rd, d, 5, 25 * d + 3);          // level 1, unaligned
    check_single(rd, d, 1600, 6400);             // level 2
    check_single(rd, d, 37, 100003);             // level 3, unaligned
    check_single(rd, d, 0, N);                   // whole signal

    jls_rd_close(rd);
    remove(FILENAME);
    if (failures) {
        printf("C02 VIOLATED: %d request(s)\n", failures);
        return 1;
    }
    printf("C02 holds for all requests\n");
    return 0;
}
