/*
 * UNMODIFIED-LIBRARY finding (C04, UTC clause): one flipped payload bit in the
 * second level-1 UTC summary chunk.  The first jls_rd_sample_id_to_timestamp()
 * call reports the CRC error, but utc_load() (src/reader.c) has already
 * attached the half-filled time map to the signal, so every later call skips
 * the load and answers from the partial map: rc=0 with a wrong timestamp.
 */
#include "jls/writer.h"
#include "jls/reader.h"
#include "jls/raw.h"
#include "jls/format.h"
#include "jls/time.h"
#include <stdio.h>
#include <stdlib.h>
#include <string.h>
#define PATH "c04_utc.jls"
#define N_UTC 35
static const struct jls_source_def_s SRC = {.source_id = 1, .name = "src", .vendor = "v", .model = "m", .version = "1", .serial_number = "sn"};
static const struct jls_signal_def_s SIG = {
    .signal_id = 1, .source_id = 1, .signal_type = JLS_SIGNAL_TYPE_FSR, .data_type = JLS_DATATYPE_F32,
    .sample_rate = 1000, .samples_per_data = 1000, .sample_decimate_factor = 100,
    .entries_per_summary = 100, .summary_decimate_factor = 10, .utc_decimate_factor = 10,
    .name = "sig", .units = "V",
};
#define REQ(x) do { int32_t rc__ = (x); if (rc__) { printf("setup failed %d: %s\n", (int) rc__, #x); exit(2); } } while (0)
static int64_t utc_of(int i) { return JLS_TIME_SECOND * (int64_t) (1000 + i * i); }  // non-linear
static int n_cb;
static int32_t cb(void * u, const struct jls_utc_summary_entry_s * e, uint32_t size) { (void) u; (void) e; n_cb += size; return 0; }
int main(int argc, char ** argv) {
    int target = (argc > 1) ? atoi(argv[1]) : 1;  // which UTC_SUMMARY (level1) to corrupt, -1 none
    struct jls_wr_s * wr = NULL;
    static float samples[1000];
    remove(PATH);
    REQ(jls_wr_open(&wr, PATH));
    REQ(jls_wr_source_def(wr, &SRC));
    REQ(jls_wr_signal_def(wr, &SIG));
    for (int i = 0; i < N_UTC; ++i) {
        REQ(jls_wr_fsr_f32(wr, 1, i * 1000, samples, 1000));
        REQ(jls_wr_utc(wr, 1, i * 1000, utc_of(i)));
    }
    REQ(jls_wr_close(wr));
    struct jls_raw_s * raw = NULL; struct jls_chunk_header_s hdr; int64_t offset = 0; int k = 0;
    REQ(jls_raw_open(&raw, PATH, "r"));
    while (0 == jls_raw_rd_header(raw, &hdr)) {
        if ((hdr.tag == JLS_TAG_TRACK_UTC_SUMMARY) && ((hdr.chunk_meta >> 12) == 1)) {
            if (k++ == target) offset = jls_raw_chunk_tell(raw);
        }
        if (jls_raw_chunk_next(raw)) break;
    }
    jls_raw_close(raw);
    if (offset) {
        FILE * f = fopen(PATH, "r+b"); uint8_t b; long pos = offset + 32 + 16 + 8;
        fseek(f, pos, SEEK_SET); fread(&b, 1, 1, f); b ^= 1; fseek(f, pos, SEEK_SET); fwrite(&b, 1, 1, f); fclose(f);
        printf("flipped at %ld\n", pos);
    }
    struct jls_rd_s * rd = NULL;
    int32_t rc = jls_rd_open(&rd, PATH);
    if (rc) { printf("open error %d\n", rc); return 0; }
    int bad = 0;
    for (int a = 0; a < 3; ++a) {
        int64_t ts = 0;
        rc = jls_rd_sample_id_to_timestamp(rd, 1, 30000, &ts);
        printf("attempt %d: rc=%d ts=%lld expected=%lld\n", a, rc, (long long) ts, (long long) utc_of(30));
        if ((0 == rc) && (ts != utc_of(30))) { printf("  WRONG timestamp returned as valid\n"); bad = 1; }
    }
    n_cb = 0; rc = jls_rd_utc(rd, 1, 0, cb, NULL); printf("rd_utc rc=%d n=%d\n", rc, n_cb);
    jls_rd_close(rd);
    remove(PATH);
    printf(bad ? "FAIL\n" : "PASS\n");
    return bad;
}
