#!/bin/sh
# Build the library objects of the tree this is run from, plus demo.c, in a
# temporary directory and run the demo.  Exit code = demo result.
HERE=$(cd "$(dirname "$0")" && pwd)
ROOT=$(pwd)
TMP=$(mktemp -d) || exit 99
trap 'rm -rf "$TMP"' EXIT
CFLAGS="-std=gnu99 -O1 -g -msse4.2 -fPIC -I$ROOT/include -I$ROOT/include_prv"
for f in bit_shift buffer datatype copy core crc32c ec log msg_ring_buffer raw tmap reader \
         statistics threaded_writer track wr_fsr wr_ts writer backend_posix; do
    cc $CFLAGS -c "$ROOT/src/$f.c" -o "$TMP/$f.o" || exit 98
done
cc $CFLAGS "$HERE/demo.c" "$TMP"/*.o -o "$TMP/demo" -lm -lpthread || exit 97
cd "$TMP" || exit 96
timeout 300 ./demo
