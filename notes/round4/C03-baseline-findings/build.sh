#!/bin/sh
# usage: build.sh <demo.c> <outdir> [extra cflags]
set -e
ROOT=$(pwd)
SRC=$1; OUT=$2; shift 2
mkdir -p "$OUT"
for f in bit_shift buffer datatype copy core crc32c ec log msg_ring_buffer raw tmap reader statistics threaded_writer track wr_fsr wr_ts writer backend_posix; do
  cc -O1 -g -std=gnu11 -Wall -Wextra -Wpedantic -Werror $LIBDEFS -I"$ROOT/include" -I"$ROOT/include_prv" -D__FILENAME__="\"$f.c\"" -DJLS_OPTIMIZE_CRC_DISABLE=1 -c "$ROOT/src/$f.c" -o "$OUT/$f.o" &
done
wait
cc -O1 -g -std=gnu11 -Wall -Wextra -I"$ROOT/include" "$@" "$SRC" "$OUT"/*.o -o "$OUT/demo" -lm -lpthread
