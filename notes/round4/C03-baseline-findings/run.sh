#!/bin/sh
# Builds the library objects from the tree this is run in (the worktree root) and the demo
# into a temporary directory, runs the demo; exit code = demo result (0 pass, 1 property violated).
ROOT=$(pwd)
HERE="$ROOT/seed_out/baseline-findings"
DEMO=${1:-demo_overwrite.c}
OUT=$(mktemp -d /tmp/c03_demo_XXXXXX)
trap 'rm -rf "$OUT"' EXIT
set -e
for f in bit_shift buffer datatype copy core crc32c ec log msg_ring_buffer raw tmap reader statistics threaded_writer track wr_fsr wr_ts writer backend_posix; do
  cc -O1 -g -std=gnu11 -Wall -Wextra -Wpedantic -Werror -I"$ROOT/include" -I"$ROOT/include_prv" \
     -D__FILENAME__="\"$f.c\"" -DJLS_OPTIMIZE_CRC_DISABLE=1 -c "$ROOT/src/$f.c" -o "$OUT/$f.o"
done
cc -O1 -g -std=gnu11 -Wall -Wextra -I"$ROOT/include" "$HERE/$DEMO" "$OUT"/*.o -o "$OUT/demo" -lm -lpthread
set +e
"$OUT/demo" "$OUT"
rc=$?
echo "demo exit code: $rc"
exit $rc
