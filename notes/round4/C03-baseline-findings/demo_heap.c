// unmodified tree: heap overflow in jls_core_repair_fsr on a torn in-place header rewrite
#define PROGRAM 3
#define K_FIRST 436
#define K_LAST 436
// Crash-point harness for property C03 (writer stopped at any point leaves a
// file that reopens to a correct prefix).
//
// The writer program runs once with write(2) interposed; every backend write is
// recorded (offset, bytes, what had been submitted so far).  Then, for every
// crash point (k complete writes, plus byte prefixes of write k+1) the file
// image is rebuilt, reopened with jls_rd_open in a forked child (with an
// alarm), and checked against the submitted data.
#define _GNU_SOURCE
#include "jls/reader.h"
#include "jls/writer.h"
#include "jls/ec.h"
#include "jls/format.h"
#include "jls/log.h"
#include <math.h>
#include <signal.h>
#include <stdio.h>
#include <stdlib.h>
#include <string.h>
#include <unistd.h>
#include <fcntl.h>
#include <sys/syscall.h>
#include <sys/wait.h>

#ifndef PROGRAM
#define PROGRAM 0
#endif
#ifndef K_FIRST
#define K_FIRST 0          // first crash point (number of complete backend writes) to check
#endif
#ifndef K_LAST
#define K_LAST 1000000     // last crash point to check
#endif

#define NSIGS 4          // signal ids 1..3 used
#define ANNO_MAX 4096

struct wrec_s {
    int64_t off;
    uint32_t len;
    uint8_t * data;
    int64_t sub[NSIGS];       // samples submitted, including the call in progress
    int64_t sub_done[NSIGS];  // samples submitted by completed calls
    int32_t anno[NSIGS];      // annotations submitted, including in progress
    int32_t utc[NSIGS];
    int32_t user;
    int defs_done;
    int32_t links[NSIGS];    // FSR data chunks linked into their signal's chain
};

static struct wrec_s * g_recs = NULL;
static size_t g_recs_n = 0;
static size_t g_recs_cap = 0;
static int g_rec = 0;

static int64_t g_sub[NSIGS];
static int64_t g_sub_done[NSIGS];
static int32_t g_anno[NSIGS];
static int32_t g_utc[NSIGS];
static int32_t g_user;
static int g_defs_done;
static int32_t g_links[NSIGS];

ssize_t write(int fd, const void * buf, size_t n) {
    if (g_rec && (fd > 2)) {
        if (g_recs_n >= g_recs_cap) {
            g_recs_cap = g_recs_cap ? g_recs_cap * 2 : 1024;
            g_recs = realloc(g_recs, g_recs_cap * sizeof(*g_recs));
        }
        struct wrec_s * r = &g_recs[g_recs_n++];
        r->off = lseek(fd, 0, SEEK_CUR);
        r->len = (uint32_t) n;
        r->data = malloc(n ? n : 1);
        memcpy(r->data, buf, n);
        memcpy(r->sub, g_sub, sizeof(g_sub));
        memcpy(r->sub_done, g_sub_done, sizeof(g_sub_done));
        memcpy(r->anno, g_anno, sizeof(g_anno));
        memcpy(r->utc, g_utc, sizeof(g_utc));
        r->user = g_user;
        r->defs_done = g_defs_done;
        memcpy(r->links, g_links, sizeof(g_links));
        if (n == 32) {
            // an in-place rewrite of a data chunk header with item_next set links the next data chunk
            int64_t end = lseek(fd, 0, SEEK_END);
            lseek(fd, r->off, SEEK_SET);
            const uint8_t * b = (const uint8_t *) buf;
            int64_t item_next;
            memcpy(&item_next, b, 8);
            uint16_t meta;
            memcpy(&meta, b + 18, 2);
            if ((r->off < end) && (b[16] == JLS_TAG_TRACK_FSR_DATA) && item_next && (meta < NSIGS)) {
                g_links[meta] += 1;   // takes effect for the crash points after this write
            }
        }
    }
    return syscall(SYS_write, fd, buf, n);
}

// ---------------------------------------------------------------- content
struct sig_cfg_s {
    uint16_t signal_id;
    uint32_t data_type;
    uint32_t spd, sdf, eps, sumdf;
    int64_t total;          // samples to write
    uint32_t burst;         // samples per jls_wr_fsr call
    int omit;               // 0 none, 1 = use jls_wr_fsr_omit_data for a stretch
    int64_t sample_id0;
};

#if PROGRAM == 0
// three signals interleaved, annotations + utc + user data, up to 3 summary levels
static struct sig_cfg_s CFG[] = {
    {1, JLS_DATATYPE_F32, 16, 16, 10, 10, 20000, 37, 0, 0},
    {2, JLS_DATATYPE_U8, 64, 32, 10, 10, 9000, 50, 0, 0},
    {3, JLS_DATATYPE_I16, 32, 16, 20, 10, 5000, 23, 0, 1000},
};
#define ANNO_EVERY 9
#define UTC_EVERY 5
#define USER_EVERY 31
#define ADF 10
#define UDF 10
#elif PROGRAM == 1
// one f32 signal with a non-zero sample_id start
static struct sig_cfg_s CFG[] = {
    {1, JLS_DATATYPE_F32, 16, 16, 10, 10, 4000, 40, 0, 4242},
};
#define ANNO_EVERY 3
#define UTC_EVERY 2
#define USER_EVERY 7
#define ADF 10
#define UDF 10
#elif PROGRAM == 2
static struct sig_cfg_s CFG[] = {
    {1, JLS_DATATYPE_F32, 16, 16, 10, 10, 2500, 16, 0, 0},
    {2, JLS_DATATYPE_U8, 64, 32, 10, 10, 6000, 64, 0, 0},
};
#define ANNO_EVERY 2
#define UTC_EVERY 1
#define USER_EVERY 11
#define ADF 10
#define UDF 10
#elif PROGRAM == 3
static struct sig_cfg_s CFG[] = {
    {1, JLS_DATATYPE_F32, 16, 16, 10, 10, 20000, 40, 0, 0},
};
#define ANNO_EVERY 1000000
#define UTC_EVERY 1000000
#define USER_EVERY 1000000
#define ADF 10
#define UDF 10
#elif PROGRAM == 4
static struct sig_cfg_s CFG[] = {
    {1, JLS_DATATYPE_F32, 16, 16, 10, 10, 6000, 40, 0, 0},
};
#define ANNO_EVERY 3
#define UTC_EVERY 2
#define USER_EVERY 7
#define ADF 10
#define UDF 10
#elif PROGRAM == 5
// data chunks of 1016 bytes
static struct sig_cfg_s CFG[] = {
    {1, JLS_DATATYPE_F32, 240, 16, 30, 10, 240 * 45, 100, 0, 0},
};
#define ANNO_EVERY 1000000
#define UTC_EVERY 1000000
#define USER_EVERY 1000000
#define ADF 10
#define UDF 10
#elif PROGRAM == 6
// one u8 signal whose constant (auto-omitted) blocks do not line up with the level 1 groups
static struct sig_cfg_s CFG[] = {
    {2, JLS_DATATYPE_U8, 64, 32, 10, 10, 6000, 64, 0, 0},
};
#define U8_STRETCH 192
#define ANNO_EVERY 1000000
#define UTC_EVERY 1000000
#define USER_EVERY 1000000
#define ADF 10
#define UDF 10
#endif
#ifndef U8_STRETCH
#define U8_STRETCH 640
#endif
#define NCFG ((int) (sizeof(CFG) / sizeof(CFG[0])))

static float val_f32(int sig, int64_t i) {
    uint32_t h = (uint32_t) (i * 2654435761u) ^ (uint32_t) (sig * 97u);
    h ^= h >> 13;
    return (float) ((int32_t) (h % 2001) - 1000) / 8.0f;   // exact in f32
}

static uint8_t val_u8(int sig, int64_t i) {
    (void) sig;
    // long constant stretches (auto-omitted blocks) with varying data in between
    if (((i / U8_STRETCH) % 3) == 1) {
        return 7;
    }
    return (uint8_t) ((i * 31 + (i >> 3)) & 0xff);
}

static int16_t val_i16(int sig, int64_t i) {
    (void) sig;
    return (int16_t) (((i * 7919) % 4001) - 2000);
}

static double val_f64(const struct sig_cfg_s * c, int64_t i) {
    switch (c->data_type) {
        case JLS_DATATYPE_F32: return val_f32(c->signal_id, i);
        case JLS_DATATYPE_U8: return val_u8(c->signal_id, i);
        default: return val_i16(c->signal_id, i);
    }
}

static size_t sample_bytes(const struct sig_cfg_s * c) {
    return (c->data_type >> 8 & 0xff) / 8;
}

static void fill(const struct sig_cfg_s * c, int64_t start, uint32_t n, void * out) {
    for (uint32_t k = 0; k < n; ++k) {
        switch (c->data_type) {
            case JLS_DATATYPE_F32: ((float *) out)[k] = val_f32(c->signal_id, start + k); break;
            case JLS_DATATYPE_U8: ((uint8_t *) out)[k] = val_u8(c->signal_id, start + k); break;
            default: ((int16_t *) out)[k] = val_i16(c->signal_id, start + k); break;
        }
    }
}

static void anno_text(int sig, int idx, char * s, size_t n) {
    snprintf(s, n, "annotation sig=%d idx=%d %s", sig, idx, (idx & 1) ? "odd-and-a-bit-longer-than-even" : "even");
}
static int64_t anno_ts(int idx) { return 10 + (int64_t) idx * 13; }
static int64_t utc_sid(int idx) { return (int64_t) idx * 50; }
static int64_t utc_val(int sig, int idx) { return 1000000000LL * sig + (int64_t) idx * 777; }
static void user_text(int idx, char * s, size_t n) { snprintf(s, n, "user data #%d", idx); }

#define CHK(x) do { int32_t rc__ = (x); if (rc__) { fprintf(stderr, "writer: %s -> %d\n", #x, (int) rc__); exit(3); } } while (0)

static void writer_program(const char * path) {
    struct jls_wr_s * wr = NULL;
    struct jls_source_def_s src = {.source_id = 1, .name = "src", .vendor = "v", .model = "m", .version = "1", .serial_number = "s"};
    g_rec = 1;
    CHK(jls_wr_open(&wr, path));
    CHK(jls_wr_source_def(wr, &src));
    for (int c = 0; c < NCFG; ++c) {
        struct jls_signal_def_s def = {
            .signal_id = CFG[c].signal_id, .source_id = 1, .signal_type = JLS_SIGNAL_TYPE_FSR,
            .data_type = CFG[c].data_type, .sample_rate = 1000,
            .samples_per_data = CFG[c].spd, .sample_decimate_factor = CFG[c].sdf,
            .entries_per_summary = CFG[c].eps, .summary_decimate_factor = CFG[c].sumdf,
            .annotation_decimate_factor = ADF, .utc_decimate_factor = UDF,
            .name = "sig", .units = "u",
        };
        CHK(jls_wr_signal_def(wr, &def));
    }
    g_defs_done = 1;
    uint8_t buf[4096];
    char text[128];
    int more = 1;
    int round = 0;
    while (more) {
        more = 0;
        for (int c = 0; c < NCFG; ++c) {
            int s = CFG[c].signal_id;
            int64_t done = g_sub_done[s];
            if (done >= CFG[c].total) {
                continue;
            }
            more = 1;
            uint32_t n = CFG[c].burst;
            if ((int64_t) n > (CFG[c].total - done)) {
                n = (uint32_t) (CFG[c].total - done);
            }
            fill(&CFG[c], done, n, buf);
            g_sub[s] = done + n;
            CHK(jls_wr_fsr(wr, (uint16_t) s, CFG[c].sample_id0 + done, buf, n));
            g_sub_done[s] = done + n;
            if ((ANNO_EVERY < 1000000) && 0 == (round % ANNO_EVERY) && (g_anno[s] < ANNO_MAX)) {
                int idx = g_anno[s];
                anno_text(s, idx, text, sizeof(text));
                g_anno[s] = idx + 1;
                CHK(jls_wr_annotation(wr, (uint16_t) s, CFG[c].sample_id0 + anno_ts(idx), 1.5f + idx, JLS_ANNOTATION_TYPE_TEXT,
                                      (uint8_t) (idx & 3), JLS_STORAGE_TYPE_STRING, (const uint8_t *) text, 0));
            }
            if ((UTC_EVERY < 1000000) && 0 == (round % UTC_EVERY) && (g_utc[s] < ANNO_MAX)) {
                int idx = g_utc[s];
                g_utc[s] = idx + 1;
                CHK(jls_wr_utc(wr, (uint16_t) s, CFG[c].sample_id0 + utc_sid(idx), utc_val(s, idx)));
            }
        }
        if ((USER_EVERY < 1000000) && 0 == (round % USER_EVERY)) {
            int idx = g_user;
            user_text(idx, text, sizeof(text));
            g_user = idx + 1;
            CHK(jls_wr_user_data(wr, (uint16_t) (idx + 1), JLS_STORAGE_TYPE_STRING, (const uint8_t *) text, 0));
        }
        ++round;
    }
    CHK(jls_wr_close(wr));
    g_rec = 0;
}

// ---------------------------------------------------------------- checking
struct seq_s {
    int sig;
    int next;      // next acceptable index
    int limit;     // number submitted
    int bad;
    int count;
    int64_t sid0;
};

static int32_t on_anno(void * user_data, const struct jls_annotation_s * a) {
    struct seq_s * q = (struct seq_s *) user_data;
    char text[128];
    ++q->count;
    for (int idx = q->next; idx < q->limit; ++idx) {
        anno_text(q->sig, idx, text, sizeof(text));
        if ((a->timestamp == anno_ts(idx)) && (a->data_size == strlen(text) + 1)
                && (0 == memcmp(a->data, text, a->data_size))
                && (a->annotation_type == JLS_ANNOTATION_TYPE_TEXT) && (a->storage_type == JLS_STORAGE_TYPE_STRING)
                && (a->group_id == (idx & 3)) && (a->y == 1.5f + idx)) {
            q->next = idx + 1;
            return 0;
        }
    }
    fprintf(stderr, "  annotation not one that was written (or out of order): sig=%d ts=%lld size=%u\n",
            q->sig, (long long) a->timestamp, a->data_size);
    q->bad = 1;
    return 1;
}

static int32_t on_utc(void * user_data, const struct jls_utc_summary_entry_s * utc, uint32_t size) {
    struct seq_s * q = (struct seq_s *) user_data;
    for (uint32_t k = 0; k < size; ++k) {
        int found = 0;
        ++q->count;
        for (int idx = q->next; idx < q->limit; ++idx) {
            if ((utc[k].sample_id == utc_sid(idx)) && (utc[k].timestamp == utc_val(q->sig, idx))) {
                q->next = idx + 1;
                found = 1;
                break;
            }
        }
        if (!found) {
            fprintf(stderr, "  utc entry not one that was written (or out of order): sig=%d sample_id=%lld utc=%lld\n",
                    q->sig, (long long) utc[k].sample_id, (long long) utc[k].timestamp);
            q->bad = 1;
            return 1;
        }
    }
    return 0;
}

static int32_t on_user(void * user_data, uint16_t chunk_meta, enum jls_storage_type_e storage_type,
                       uint8_t * data, uint32_t data_size) {
    struct seq_s * q = (struct seq_s *) user_data;
    char text[128];
    ++q->count;
    for (int idx = q->next; idx < q->limit; ++idx) {
        user_text(idx, text, sizeof(text));
        if ((chunk_meta == idx + 1) && (storage_type == JLS_STORAGE_TYPE_STRING)
                && (data_size == strlen(text) + 1) && (0 == memcmp(data, text, data_size))) {
            q->next = idx + 1;
            return 0;
        }
    }
    fprintf(stderr, "  user data not one that was written (or out of order): meta=%d\n", (int) chunk_meta);
    q->bad = 1;
    return 1;
}

static int stats_check(struct jls_rd_s * rd, const struct sig_cfg_s * c, int64_t start, int64_t n) {
    double d[JLS_SUMMARY_FSR_COUNT];
    int32_t rc = jls_rd_fsr_statistics(rd, c->signal_id, start, n, d, 1);
    if (rc) {
        if (getenv("C03_STRICT")) {
            fprintf(stderr, "  statistics(sig=%d, %lld, %lld) -> %d\n", c->signal_id, (long long) start, (long long) n, (int) rc);
            return 1;
        }
        return 0;  // an error exposes no data
    }
    double mean = 0, mn = 1e300, mx = -1e300, var = 0;
    for (int64_t i = 0; i < n; ++i) {
        double v = val_f64(c, start + i);
        mean += v;
        if (v < mn) mn = v;
        if (v > mx) mx = v;
    }
    mean /= (double) n;
    for (int64_t i = 0; i < n; ++i) {
        double v = val_f64(c, start + i) - mean;
        var += v * v;
    }
    double std = (n > 1) ? sqrt(var / (double) (n - 1)) : 0.0;
    double scale = fabs(mx) > fabs(mn) ? fabs(mx) : fabs(mn);
    if (scale < 1.0) scale = 1.0;
    if ((fabs(d[JLS_SUMMARY_FSR_MEAN] - mean) > 2e-3 * scale)
            || (d[JLS_SUMMARY_FSR_MIN] != mn) || (d[JLS_SUMMARY_FSR_MAX] != mx)
            || (fabs(d[JLS_SUMMARY_FSR_STD] - std) > 2e-2 * scale)) {
        fprintf(stderr, "  statistics(sig=%d, %lld, %lld) mismatch: got mean=%g min=%g max=%g std=%g, expect mean=%g min=%g max=%g std=%g\n",
                c->signal_id, (long long) start, (long long) n,
                d[JLS_SUMMARY_FSR_MEAN], d[JLS_SUMMARY_FSR_MIN], d[JLS_SUMMARY_FSR_MAX], d[JLS_SUMMARY_FSR_STD],
                mean, mn, mx, std);
        return 1;
    }
    return 0;
}

// returns 0 ok, 1 property violated
static int check_file(const char * path, const struct wrec_s * st, int between_writes) {
    struct jls_rd_s * rd = NULL;
    int32_t rc = jls_rd_open(&rd, path);
    if (rc) {
        if (between_writes && st->defs_done) {
            fprintf(stderr, "  open failed (%d) although all definitions were on disk and the stop was between writes\n", (int) rc);
            return 1;
        }
        return 0;  // an error is an acceptable outcome
    }
    int fail = 0;
    for (int c = 0; (c < NCFG) && !fail; ++c) {
        const struct sig_cfg_s * cfg = &CFG[c];
        int s = cfg->signal_id;
        struct jls_signal_def_s def;
        if (jls_rd_signal(rd, (uint16_t) s, &def)) {
            if (st->defs_done && between_writes) {
                fprintf(stderr, "  signal %d missing\n", s);
                fail = 1;
            }
            continue;
        }
        int64_t len = -1;
        rc = jls_rd_fsr_length(rd, (uint16_t) s, &len);
        if (rc) {
            if (getenv("C03_STRICT")) {
                fprintf(stderr, "  fsr_length(sig=%d) -> %d\n", s, (int) rc);
                fail = 1;
                break;
            }
            continue;  // an error exposes no data
        }
        if ((len < 0) || (len > st->sub[s])) {
            fprintf(stderr, "  sig=%d length %lld > submitted %lld\n", s, (long long) len, (long long) st->sub[s]);
            fail = 1;
            break;
        }
        if (between_writes && st->defs_done && (cfg->data_type != JLS_DATATYPE_U8)) {
            int64_t lb = ((st->sub_done[s] / cfg->spd) - 1) * cfg->spd;
            if (st->links[s] && (((int64_t) (st->links[s] + 1) * cfg->spd) > lb)) {
                // every block that was linked into the chain by a completed write is no longer in flight
                lb = (int64_t) (st->links[s] + 1) * cfg->spd;
            }
            if (len < lb) {
                fprintf(stderr, "  sig=%d length %lld loses more than buffered + one block: submitted %lld\n",
                        s, (long long) len, (long long) st->sub_done[s]);
                fail = 1;
                break;
            }
        }
        if (len > 0) {
            size_t sb = sample_bytes(cfg);
            uint8_t * got = malloc((size_t) len * sb + 16);
            uint8_t * exp = malloc((size_t) len * sb + 16);
            rc = jls_rd_fsr(rd, (uint16_t) s, 0, got, len);
            if (rc) {
                if (getenv("C03_STRICT")) {
                    fprintf(stderr, "  fsr read(sig=%d, 0, %lld) -> %d\n", s, (long long) len, (int) rc);
                    fail = 1;
                }
                free(got);
                free(exp);
                continue;
            } else {
                for (int64_t i = 0; i < len; i += 1024) {
                    uint32_t n = (uint32_t) (((len - i) < 1024) ? (len - i) : 1024);
                    fill(cfg, i, n, exp + i * sb);
                }
                if (memcmp(got, exp, (size_t) len * sb)) {
                    int64_t i = 0;
                    while (got[i] == exp[i]) ++i;
                    fprintf(stderr, "  sig=%d sample %lld of %lld differs from what was submitted\n",
                            s, (long long) (i / (int64_t) sb), (long long) len);
                    fail = 1;
                }
            }
            free(got);
            free(exp);
            if (!fail) {
                fail |= stats_check(rd, cfg, 0, len);
                int64_t w = len / 5;
                if (!fail && (w > 0)) {
                    for (int k = 0; (k < 5) && !fail; ++k) {
                        fail |= stats_check(rd, cfg, k * w, w);
                    }
                    if (!fail && (len > 3)) {
                        fail |= stats_check(rd, cfg, len - len / 3, len / 3);
                    }
                }
            }
        }
        if (fail) {
            break;
        }
        struct seq_s q = {.sig = s, .next = 0, .limit = st->anno[s]};
        jls_rd_annotations(rd, (uint16_t) s, -1000000, on_anno, &q);
        fail |= q.bad;
        struct seq_s qu = {.sig = s, .next = 0, .limit = st->utc[s]};
        jls_rd_utc(rd, (uint16_t) s, -1000000, on_utc, &qu);
        fail |= qu.bad;
    }
    if (!fail) {
        struct seq_s q = {.sig = 0, .next = 0, .limit = st->user};
        jls_rd_user_data(rd, on_user, &q);
        fail |= q.bad;
    }
    jls_rd_close(rd);
    return fail;
}

static void on_log(const char * msg) { fputs(msg, stderr); }

static uint8_t * g_img = NULL;
static size_t g_img_sz = 0;
static size_t g_img_cap = 0;

static void img_apply(int64_t off, const uint8_t * data, uint32_t len) {
    size_t end = (size_t) off + len;
    if (end > g_img_cap) {
        size_t cap = g_img_cap ? g_img_cap : 65536;
        while (cap < end) cap *= 2;
        g_img = realloc(g_img, cap);
        memset(g_img + g_img_cap, 0, cap - g_img_cap);
        g_img_cap = cap;
    }
    memcpy(g_img + off, data, len);
    if (end > g_img_sz) {
        g_img_sz = end;
    }
}

static void img_dump(const char * path, const uint8_t * img, size_t sz) {
    int fd = open(path, O_WRONLY | O_CREAT | O_TRUNC, 0644);
    size_t done = 0;
    while (done < sz) {
        ssize_t n = syscall(SYS_write, fd, img + done, sz - done);
        if (n <= 0) { perror("dump"); exit(3); }
        done += (size_t) n;
    }
    close(fd);
}

static int run_point(const char * path, const struct wrec_s * st, int between, size_t k, uint32_t partial) {
    fflush(NULL);
    pid_t pid = fork();
    if (pid == 0) {
        alarm(20);
        if (getenv("C03_LOG")) { jls_log_register(on_log); }
        int rv = check_file(path, st, between);
        fflush(NULL);
        _exit(rv ? 1 : 0);
    }
    int status = 0;
    waitpid(pid, &status, 0);
    if (WIFEXITED(status) && (WEXITSTATUS(status) == 0)) {
        return 0;
    }
    if (WIFSIGNALED(status)) {
        fprintf(stderr, "  reader %s (signal %d)\n", (WTERMSIG(status) == SIGALRM) ? "did not terminate" : "crashed", WTERMSIG(status));
    }
    fprintf(stderr, "FAIL at crash point: %zu complete writes + %u bytes of the next (of %zu writes)\n", k, partial, g_recs_n);
    return 1;
}

int main(int argc, char ** argv) {
    char path_w[256];
    char path_c[256];
    const char * dir = (argc > 1) ? argv[1] : "/tmp";
    size_t k_first = (argc > 2) ? (size_t) atol(argv[2]) : K_FIRST;
    size_t k_last = (argc > 3) ? (size_t) atol(argv[3]) : K_LAST;
    int stop_on_fail = (argc > 4) ? atoi(argv[4]) : 0;
    snprintf(path_w, sizeof(path_w), "%s/c03_w_%d.jls", dir, (int) getpid());
    snprintf(path_c, sizeof(path_c), "%s/c03_c_%d.jls", dir, (int) getpid());
    writer_program(path_w);
    unlink(path_w);
    fprintf(stderr, "writer: %zu backend writes\n", g_recs_n);

    int fails = 0;
    size_t points = 0;
    for (size_t k = 0; k <= g_recs_n; ++k) {
        // state: k complete writes
        struct wrec_s st;
        if (k < g_recs_n) {
            st = g_recs[k];   // what had been submitted when write k+1 was issued
        } else {
            st = g_recs[g_recs_n - 1];
        }
        if ((k >= k_first) && (k <= k_last)) {
            img_dump(path_c, g_img, g_img_sz);
            ++points;
            if (run_point(path_c, &st, 1, k, 0)) {
                ++fails;
                if (stop_on_fail) break;
            }
            if (k < g_recs_n) {
                // byte prefixes of write k+1
                const struct wrec_s * r = &g_recs[k];
                uint32_t cuts[8];
                int ncuts = 0;
                if (r->len > 1) {
                    cuts[ncuts++] = 1;
                    if (r->len > 8) cuts[ncuts++] = 8;
                    if (r->len > 33) cuts[ncuts++] = 31;
                    if (r->len > 4) cuts[ncuts++] = r->len / 2;
                    if (r->len > 12) cuts[ncuts++] = r->len - 5;
                    cuts[ncuts++] = r->len - 1;
                }
                for (int ci = 0; ci < ncuts; ++ci) {
                    size_t sz_before = g_img_sz;
                    size_t end = (size_t) r->off + cuts[ci];
                    uint8_t * saved = malloc(cuts[ci]);
                    size_t have = (end <= g_img_cap) ? cuts[ci] : 0;
                    if (have) memcpy(saved, g_img + r->off, cuts[ci]);
                    img_apply(r->off, r->data, cuts[ci]);
                    img_dump(path_c, g_img, g_img_sz);
                    ++points;
                    int f = run_point(path_c, &st, 0, k, cuts[ci]);
                    // undo
                    if (have) memcpy(g_img + r->off, saved, cuts[ci]);
                    g_img_sz = sz_before;
                    free(saved);
                    if (f) {
                        ++fails;
                        if (stop_on_fail) break;
                    }
                }
                if (fails && stop_on_fail) break;
            }
        }
        if (k < g_recs_n) {
            img_apply(g_recs[k].off, g_recs[k].data, g_recs[k].len);
        }
    }
    if (!getenv("C03_KEEP")) unlink(path_c); else fprintf(stderr, "kept %s\n", path_c);
    fprintf(stderr, "%zu crash points checked, %d failed\n", points, fails);
    return fails ? 1 : 0;
}
