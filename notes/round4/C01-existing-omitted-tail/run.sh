#!/bin/sh
# Builds the library sources of the tree this is run from (worktree root) plus
# the demo into a temporary directory, then runs the demo. Exit code = demo result.
ROOT=$(pwd)
HERE=$(dirname "$0")
T=$(mktemp -d /tmp/jls_seed_XXXXXX) || exit 99
trap 'rm -rf "$T"' EXIT
SRCS="bit_shift buffer datatype copy core crc32c ec log msg_ring_buffer raw tmap reader statistics threaded_writer track wr_fsr wr_ts writer backend_posix"
for s in $SRCS; do
  cc -std=gnu99 -O1 -g -Wall -Wextra -Wpedantic -Werror -DJLS_OPTIMIZE_CRC_DISABLE=1 "-D__FILENAME__=\"$s.c\"" \
     -I"$ROOT/include" -I"$ROOT/include_prv" -c "$ROOT/src/$s.c" -o "$T/$s.o" || exit 98
done
cc -std=gnu99 -O1 -g -I"$ROOT/include" "$HERE/demo.c" "$T"/*.o -lm -lpthread -o "$T/demo" || exit 97
timeout 120 "$T/demo" "$T/demo.jls"
