#include "jls/writer.h"
#include "jls/reader.h"
#include <stdio.h>
#include <string.h>
#include <stdlib.h>
int main(int argc, char * argv[]) {
    const char * fn = (argc > 1) ? argv[1] : "existing_omitted_tail.jls";
    struct jls_source_def_s src = {.source_id=1,.name="s",.vendor="v",.model="m",.version="1",.serial_number="1"};
    struct jls_signal_def_s sig = {.signal_id=1,.source_id=1,.signal_type=JLS_SIGNAL_TYPE_FSR,.data_type=JLS_DATATYPE_U8,
        .sample_rate=1000,.samples_per_data=1000,.sample_decimate_factor=100,.entries_per_summary=200,.summary_decimate_factor=100,.name="x",.units="u"};
    struct jls_wr_s * wr;
    if (jls_wr_open(&wr, fn)) return 2;
    if (jls_wr_source_def(wr, &src)) return 2;
    if (jls_wr_signal_def(wr, &sig)) return 2;
    uint8_t d[5000];
    for (int i = 0; i < 5000; ++i) d[i] = (i < 1024) ? (uint8_t) i : 7;
    int n = 2048 + 150;
    if (jls_wr_fsr(wr, 1, 0, d, n)) return 2;
    jls_wr_close(wr);
    struct jls_rd_s * rd;
    if (jls_rd_open(&rd, fn)) return 2;
    int64_t len = 0;
    jls_rd_fsr_length(rd, 1, &len);
    printf("len=%ld expect=%d\n", (long) len, n);
    uint8_t o[5000];
    int rc = jls_rd_fsr(rd, 1, 0, o, n);
    printf("rd rc=%d cmp=%d\n", rc, memcmp(o, d, n));
    jls_rd_close(rd);
    return (len == n && rc == 0 && 0 == memcmp(o, d, n)) ? 0 : 1;
}
