// Findings on the UNMODIFIED tree (not seeded). usage: baseline <mode> <file>
//  mode 1: utc_decimate_factor = 1  -> writer corrupts the heap / jls_wr_utc fails
//  mode 2: exactly 1000 UTC entries (the tmap's initial capacity), query at/after the last anchor
//          -> interp_i64 reads x[entries_length]: 8 bytes past the malloc'd block (needs ASan to see)
//  mode 3: two neighbouring pairs with equal UTC (allowed: "non-decreasing times"),
//          time -> id at that time -> 0 * inf = NaN -> garbage sample id
#include "jls/writer.h"
#include "jls/reader.h"
#include "jls/time.h"
#include <stdio.h>
#include <stdlib.h>
#include <inttypes.h>

int main(int argc, char ** argv) {
    int mode = (argc > 1) ? atoi(argv[1]) : 1;
    const char * path = (argc > 2) ? argv[2] : "baseline_c12.jls";
    uint32_t d = (mode == 1) ? 1 : 100;
    uint32_t n = (mode == 1) ? 20 : ((mode == 2) ? 1000 : 3);
    int fails = 0;
    struct jls_source_def_s src = {.source_id = 1, .name = "src", .vendor = "v", .model = "m",
                                   .version = "1", .serial_number = "1"};
    struct jls_signal_def_s sig = {.signal_id = 1, .source_id = 1, .signal_type = JLS_SIGNAL_TYPE_FSR,
        .data_type = JLS_DATATYPE_F32, .sample_rate = 1000, .samples_per_data = 1000,
        .sample_decimate_factor = 100, .entries_per_summary = 200, .summary_decimate_factor = 100,
        .annotation_decimate_factor = 100, .utc_decimate_factor = d, .name = "sig", .units = "V"};
    struct jls_wr_s * wr = NULL;
    if (jls_wr_open(&wr, path)) { return 2; }
    if (jls_wr_source_def(wr, &src) || jls_wr_signal_def(wr, &sig)) { return 2; }
    for (uint32_t i = 0; i < n; ++i) {
        int64_t t = JLS_TIME_YEAR + (int64_t) i * JLS_TIME_SECOND;
        if ((mode == 3) && (i == 2)) { t -= JLS_TIME_SECOND; }  // same time as entry 1
        int32_t rc = jls_wr_utc(wr, 1, (int64_t) i * 1000, t);
        if (rc) { printf("FAIL: jls_wr_utc #%u rc=%d\n", i, rc); ++fails; }
    }
    jls_wr_close(wr);
    struct jls_rd_s * rd = NULL;
    if (jls_rd_open(&rd, path)) { printf("FAIL: rd_open\n"); return 1; }
    int64_t v = 0;
    if (mode == 2) {
        int32_t rc = jls_rd_sample_id_to_timestamp(rd, 1, 999 * 1000 + 500, &v);
        printf("rc=%d v=%" PRIi64 "\n", rc, v);
    } else if (mode == 3) {
        int32_t rc = jls_rd_timestamp_to_sample_id(rd, 1, JLS_TIME_YEAR + JLS_TIME_SECOND, &v);
        printf("rc=%d sample_id=%" PRIi64 " (expected 1000..2000)\n", rc, v);
        if (rc || (v < 1000) || (v > 2000)) { ++fails; }
    }
    jls_rd_close(rd);
    remove(path);
    return fails ? 1 : 0;
}
