/*
 * Baseline observation (UNMODIFIED library): strict min <= mean <= max is
 * violated by one ulp for constant sequences, in compute and in combine.
 * jls_statistics_add (Welford) keeps the mean exact for constant input.
 */
#include "jls/statistics.h"
#include <stdio.h>

int main(void) {
    int bad = 0;
    double x[3] = {0.1, 0.1, 0.1};
    struct jls_statistics_s s, a, b, t;

    jls_statistics_compute_f64(&s, x, 3);
    printf("compute_f64({0.1,0.1,0.1}): min=%.17g mean=%.17g max=%.17g  %s\n",
           s.min, s.mean, s.max, (s.min <= s.mean && s.mean <= s.max) ? "ok" : "mean outside [min,max]");
    bad += !(s.min <= s.mean && s.mean <= s.max);

    for (int ka = 1; ka <= 20 && bad < 2; ++ka) {
        for (int kb = 1; kb <= 20; ++kb) {
            jls_statistics_reset(&a);
            jls_statistics_reset(&b);
            for (int i = 0; i < ka; ++i) { jls_statistics_add(&a, 0.1); }
            for (int i = 0; i < kb; ++i) { jls_statistics_add(&b, 0.1); }
            jls_statistics_combine(&t, &a, &b);
            if (!(t.min <= t.mean && t.mean <= t.max)) {
                printf("combine(add x%d, add x%d) of constant 0.1: min=%.17g mean=%.17g max=%.17g  mean outside [min,max], s=%g\n",
                       ka, kb, t.min, t.mean, t.max, t.s);
                ++bad;
                break;
            }
        }
    }
    return bad ? 1 : 0;
}
