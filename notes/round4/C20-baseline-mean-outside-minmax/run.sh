#!/bin/sh
# Build the library objects from the tree this is run in (worktree root = cwd)
# plus demo.c into a temporary directory, then run the demo.
# Exit code = demo result (0 = property holds, non-zero = violated).
set -e
HERE=$(cd "$(dirname "$0")" && pwd)
ROOT=$(pwd)
TMP=$(mktemp -d)
trap 'rm -rf "$TMP"' EXIT
CC=${CC:-cc}
case "$(uname -m)" in
    x86_64|amd64) ARCH="-msse4.2" ;;
    *) ARCH="-DJLS_OPTIMIZE_CRC_DISABLE=1" ;;
esac
CFLAGS="-std=gnu99 -O1 -g -Wall -Wextra $ARCH -I$ROOT/include -I$ROOT/include_prv"
SRCS="bit_shift buffer datatype copy core crc32c ec log msg_ring_buffer raw tmap reader statistics threaded_writer track wr_fsr wr_ts writer backend_posix"
OBJS=""
for f in $SRCS; do
    $CC $CFLAGS -D__FILENAME__="\"$f.c\"" -c "$ROOT/src/$f.c" -o "$TMP/$f.o"
    OBJS="$OBJS $TMP/$f.o"
done
$CC $CFLAGS -c "$HERE/demo.c" -o "$TMP/demo.o"
$CC -o "$TMP/demo" "$TMP/demo.o" $OBJS -lm -lpthread
set +e
timeout 120 "$TMP/demo"
rc=$?
exit $rc
