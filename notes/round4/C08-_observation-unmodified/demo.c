/*
 * Observation on the UNMODIFIED tree (not a seeded change).
 *
 * jls_mrb_alloc() refuses a message that fits contiguously, when the consumer
 * has popped everything in front of a wrap marker but has not yet called
 * jls_mrb_peek()/jls_mrb_pop() again: the tail still sits on the marker, and
 * the writer treats [tail, end) as occupied.  The very same allocation
 * succeeds after a jls_mrb_peek(), which returns the same oldest message and
 * does not consume anything.
 *
 * exit 1 = the observation reproduces, exit 0 = it does not.
 */
#include "jls/msg_ring_buffer.h"
#include <stdio.h>

int main(void) {
    static uint8_t b[100];
    struct jls_mrb_s q;
    uint32_t sz;
    jls_mrb_init(&q, b, sizeof(b));
    jls_mrb_alloc(&q, 60);                 // [4, 64)
    jls_mrb_pop(&q, &sz);                  // empty, head = tail = 64
    jls_mrb_alloc(&q, 40);                 // wraps: marker at 64, message [4, 44)
    jls_mrb_alloc(&q, 10);                 // [48, 58), head = 58, tail = 64 (on the marker)
    // free bytes: [58, 100) = 42 contiguous bytes; nothing unpopped lives there.
    uint8_t * a1 = jls_mrb_alloc(&q, 10);  // needs 4 + 10 (+ 4 for a later marker)
    uint8_t * pk = jls_mrb_peek(&q, &sz);  // oldest message, 40 bytes at 4; consumes nothing
    uint8_t * a2 = jls_mrb_alloc(&q, 10);
    printf("alloc(10) before peek: %s; peek -> %u bytes at %ld; alloc(10) after peek: %s\n",
           a1 ? "ok" : "NULL", sz, pk ? (long) (pk - b) : -1L, a2 ? "ok" : "NULL");
    return (!a1 && a2) ? 1 : 0;
}
