// Shared helper for the C11 demos: write annotations, read them back,
// and check the C11 property for a set of seek timestamps.
#include "jls/writer.h"
#include "jls/reader.h"
#include "jls/format.h"
#include <stdio.h>
#include <stdlib.h>
#include <string.h>
#include <stdint.h>
#include <math.h>
#include <unistd.h>

#define MAX_ANNO 200000

struct rec_s {
    int64_t timestamp;
    uint32_t index;     // payload: the index in write order
};

static struct rec_s got_[MAX_ANNO];
static size_t got_count_;
static int stop_after_ = -1;     // ask to stop after this many deliveries (-1 = never)
static int bad_record_;

static int32_t on_anno_(void * user_data, const struct jls_annotation_s * a) {
    (void) user_data;
    if (got_count_ >= MAX_ANNO) {
        return 1;
    }
    uint32_t index = 0xffffffffU;
    if ((a->storage_type == JLS_STORAGE_TYPE_BINARY) && (a->data_size == sizeof(index))) {
        memcpy(&index, a->data, sizeof(index));
    } else {
        bad_record_ = 1;
    }
    if ((a->annotation_type != JLS_ANNOTATION_TYPE_USER) || (a->group_id != (uint8_t) (index & 0xff))
            || (a->y != (float) index)) {
        bad_record_ = 1;
    }
    got_[got_count_].timestamp = a->timestamp;
    got_[got_count_].index = index;
    ++got_count_;
    if ((stop_after_ >= 0) && ((int) got_count_ >= stop_after_)) {
        return 1;
    }
    return 0;
}

static int wr_one_(struct jls_wr_s * wr, uint16_t signal_id, int64_t timestamp, uint32_t index) {
    int32_t rc = jls_wr_annotation(wr, signal_id, timestamp, (float) index, JLS_ANNOTATION_TYPE_USER,
                                   (uint8_t) (index & 0xff), JLS_STORAGE_TYPE_BINARY,
                                   (const uint8_t *) &index, sizeof(index));
    if (rc) {
        printf("FAIL: jls_wr_annotation(signal=%d, ts=%lld, index=%u) returned %d\n",
               (int) signal_id, (long long) timestamp, index, rc);
        return 1;
    }
    return 0;
}

// ts: the timestamps as the READER reports them (user domain), in write order.
static int check_seek_(struct jls_rd_s * rd, uint16_t signal_id, const int64_t * ts, size_t n, int64_t t) {
    got_count_ = 0;
    bad_record_ = 0;
    stop_after_ = -1;
    int32_t rc = jls_rd_annotations(rd, signal_id, t, on_anno_, NULL);
    if (rc) {
        printf("FAIL: jls_rd_annotations(signal=%d, t=%lld) returned %d\n", (int) signal_id, (long long) t, rc);
        return 1;
    }
    if (bad_record_) {
        printf("FAIL: signal=%d t=%lld: a record did not round-trip\n", (int) signal_id, (long long) t);
        return 1;
    }
    // first index that must be present
    size_t first_needed = n;
    for (size_t i = 0; i < n; ++i) {
        if (ts[i] >= t) {
            first_needed = i;
            break;
        }
    }
    if (got_count_ > n) {
        printf("FAIL: signal=%d t=%lld: %zu delivered > %zu written\n", (int) signal_id, (long long) t, got_count_, n);
        return 1;
    }
    size_t start = n - got_count_;  // a contiguous tail must start here
    for (size_t k = 0; k < got_count_; ++k) {
        if ((got_[k].index != (uint32_t) (start + k)) || (got_[k].timestamp != ts[start + k])) {
            printf("FAIL: signal=%d t=%lld: delivery %zu is index %u ts %lld, expected index %zu ts %lld\n",
                   (int) signal_id, (long long) t, k, got_[k].index, (long long) got_[k].timestamp,
                   start + k, (long long) ts[start + k]);
            return 1;
        }
    }
    if (start > first_needed) {
        printf("FAIL: signal=%d t=%lld: first delivered is index %zu (ts %lld) but index %zu (ts %lld) is >= t: "
               "%zu annotation(s) omitted\n",
               (int) signal_id, (long long) t, start, (start < n) ? (long long) ts[start] : -1LL,
               first_needed, (long long) ts[first_needed], start - first_needed);
        return 1;
    }
    if ((first_needed - start) > 1) {
        printf("FAIL: signal=%d t=%lld: %zu annotations earlier than t delivered (at most 1 allowed)\n",
               (int) signal_id, (long long) t, first_needed - start);
        return 1;
    }
    return 0;
}

static int check_stop_(struct jls_rd_s * rd, uint16_t signal_id, int64_t t, int stop_after, size_t available) {
    got_count_ = 0;
    bad_record_ = 0;
    stop_after_ = stop_after;
    int32_t rc = jls_rd_annotations(rd, signal_id, t, on_anno_, NULL);
    stop_after_ = -1;
    if (rc) {
        printf("FAIL: stop: jls_rd_annotations returned %d\n", rc);
        return 1;
    }
    size_t expect = ((size_t) stop_after < available) ? (size_t) stop_after : available;
    if (got_count_ != expect) {
        printf("FAIL: stop after %d: %zu deliveries, expected %zu\n", stop_after, got_count_, expect);
        return 1;
    }
    return 0;
}

static const struct jls_source_def_s SOURCE_1_ = {
        .source_id = 1, .name = "src", .vendor = "v", .model = "m", .version = "1", .serial_number = "s",
};

static struct jls_signal_def_s signal_def_(uint16_t signal_id, uint8_t signal_type, uint32_t anno_decimate) {
    struct jls_signal_def_s def;
    memset(&def, 0, sizeof(def));
    def.signal_id = signal_id;
    def.source_id = 1;
    def.signal_type = signal_type;
    def.data_type = JLS_DATATYPE_F32;
    def.sample_rate = (signal_type == JLS_SIGNAL_TYPE_FSR) ? 1000 : 0;
    def.samples_per_data = 1000;
    def.sample_decimate_factor = 100;
    def.entries_per_summary = 200;
    def.summary_decimate_factor = 10;
    def.annotation_decimate_factor = anno_decimate;
    def.utc_decimate_factor = 100;
    def.name = "sig";
    def.units = "V";
    return def;
}
