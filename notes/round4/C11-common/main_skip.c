
// ---------------------------------------------------------------------------
// Demo: annotations on an FSR signal whose first sample id is not zero
// (jls_signal_def_s.sample_id_offset != 0 on read).  The reader reports
// annotation timestamps relative to the first sample, and
// jls_rd_annotations() takes its seek timestamp in that same domain.
// Seeking must deliver every annotation at or after the seek timestamp.
// ---------------------------------------------------------------------------

static float samples_[4000];

static int case_(const char * path, int64_t first_sample_id, const int64_t * ts, size_t n) {
    struct jls_wr_s * wr = NULL;
    struct jls_rd_s * rd = NULL;
    const uint16_t signal_id = 5;
    if (jls_wr_open(&wr, path)) { printf("FAIL: jls_wr_open\n"); return 1; }
    struct jls_signal_def_s def = signal_def_(signal_id, JLS_SIGNAL_TYPE_FSR, 4);
    if (jls_wr_source_def(wr, &SOURCE_1_) || jls_wr_signal_def(wr, &def)) {
        printf("FAIL: signal definition\n");
        return 1;
    }
    for (size_t i = 0; i < 4000; ++i) {
        samples_[i] = (float) (i % 17);
    }
    if (jls_wr_fsr_f32(wr, signal_id, first_sample_id, samples_, 4000)) {
        printf("FAIL: jls_wr_fsr_f32\n");
        return 1;
    }
    int fail = 0;
    for (size_t i = 0; i < n; ++i) {
        // written with the file's sample ids; read back relative to the first sample
        fail |= wr_one_(wr, signal_id, first_sample_id + ts[i], (uint32_t) i);
    }
    if (jls_wr_close(wr)) { printf("FAIL: jls_wr_close\n"); return 1; }
    if (fail) {
        return 1;
    }
    if (jls_rd_open(&rd, path)) { printf("FAIL: jls_rd_open\n"); return 1; }
    for (int64_t t = ts[0] - 3; t <= ts[n - 1] + 3; ++t) {
        fail |= check_seek_(rd, signal_id, ts, n, t);
    }
    fail |= check_stop_(rd, signal_id, ts[0], 2, n);
    jls_rd_close(rd);
    if (fail) {
        printf("  ^ first_sample_id = %lld\n", (long long) first_sample_id);
    }
    return fail;
}

int main(int argc, char ** argv) {
    const char * path = (argc > 1) ? argv[1] : "/tmp/c11_skip.jls";
    int fail = 0;
    static int64_t ts[40];
    for (size_t i = 0; i < 40; ++i) {
        ts[i] = 5 + (int64_t) (i / 3) * 40 + (int64_t) (i % 3 == 2 ? 7 : 0);  // pairs of equal timestamps
    }
    fail |= case_(path, 0, ts, 40);          // control: first sample id 0
    fail |= case_(path, -2000, ts, 40);      // first sample id below zero
    fail |= case_(path, 100, ts, 40);        // first sample id 100
    fail |= case_(path, 1000000, ts, 40);    // first sample id 1e6

    unlink(path);
    printf(fail ? "RESULT: C11 VIOLATED\n" : "RESULT: ok\n");
    return fail ? 1 : 0;
}
