// Baseline probe: broad sweep of the C11 property on the current tree.
#include "c11_check.h"

static int64_t ts_[MAX_ANNO];

static int run(const char * path, uint32_t D, size_t n, int pattern, int64_t base) {
    struct jls_wr_s * wr = NULL;
    struct jls_rd_s * rd = NULL;
    if (jls_wr_open(&wr, path)) { printf("FAIL open\n"); return 1; }
    if (jls_wr_source_def(wr, &SOURCE_1_)) { printf("FAIL source\n"); return 1; }
    struct jls_signal_def_s def = signal_def_(3, JLS_SIGNAL_TYPE_VSR, D);
    int32_t rc = jls_wr_signal_def(wr, &def);
    if (rc) { printf("FAIL signal_def %d\n", rc); return 1; }
    for (size_t i = 0; i < n; ++i) {
        switch (pattern) {
            case 0: ts_[i] = base + (int64_t) i * 10; break;
            case 1: ts_[i] = base + (int64_t) (i / 3) * 10; break;         // runs of 3
            case 2: ts_[i] = base + (int64_t) (i / (2 * D + 1)) * 10; break; // long runs
            default: ts_[i] = base; break;                                  // all equal
        }
        if (wr_one_(wr, 3, ts_[i], (uint32_t) i)) { return 1; }
    }
    if (jls_wr_close(wr)) { printf("FAIL close\n"); return 1; }
    if (jls_rd_open(&rd, path)) { printf("FAIL rd_open\n"); return 1; }
    int fail = 0;
    int64_t lo = (n ? ts_[0] : base) - 15;
    int64_t hi = (n ? ts_[n - 1] : base) + 15;
    int64_t step = ((hi - lo) / 400) + 1;
    for (int64_t t = lo; t <= hi && !fail; t += step) {
        fail |= check_seek_(rd, 3, ts_, n, t);
    }
    for (size_t i = 0; i < n && !fail; i += (n / 300) + 1) {
        fail |= check_seek_(rd, 3, ts_, n, ts_[i]);
        fail |= check_seek_(rd, 3, ts_, n, ts_[i] + 1);
    }
    if (!fail && n >= 3) {
        fail |= check_stop_(rd, 3, lo, 1, n);
        fail |= check_stop_(rd, 3, lo, 2, n);
    }
    jls_rd_close(rd);
    if (fail) {
        printf("  ^ D=%u n=%zu pattern=%d base=%lld\n", D, n, pattern, (long long) base);
    }
    return fail;
}

int main(int argc, char ** argv) {
    const char * path = (argc > 1) ? argv[1] : "/tmp/c11_probe.jls";
    int fail = 0;
    uint32_t Ds[] = {2, 3, 4, 7, 100};
    for (size_t d = 0; d < sizeof(Ds) / sizeof(Ds[0]); ++d) {
        uint32_t D = Ds[d];
        size_t nmax = (D <= 7) ? (size_t) D * D * D + 2 * D + 3 : 10250;
        for (int pattern = 0; pattern < 4; ++pattern) {
            for (int b = 0; b < 2; ++b) {
                int64_t base = b ? -1000 : 0;
                if (D <= 4) {
                    for (size_t n = 0; n <= nmax; ++n) {
                        fail |= run(path, D, n, pattern, base);
                    }
                } else {
                    size_t ns[] = {0, 1, D - 1, D, D + 1, 2 * D, D * D - 1, D * D, D * D + 1, D * D + D, nmax};
                    for (size_t k = 0; k < sizeof(ns) / sizeof(ns[0]); ++k) {
                        fail |= run(path, D, ns[k], pattern, base);
                    }
                }
                if (fail) {
                    printf("probe FAILED\n");
                    return 1;
                }
            }
        }
    }
    unlink(path);
    printf("probe OK\n");
    return 0;
}
