#!/bin/sh
# Builds the library objects from the tree this is run in, plus demo.c, into a
# temporary directory and runs the demo.  Invoke from the worktree root:
#   sh seed_out/NAME/run.sh
# Exit code = demo result (0 = property holds, non-zero = violated).
ROOT=$(pwd)
HERE=$(cd "$(dirname "$0")" && pwd)
T=$(mktemp -d "${TMPDIR:-/tmp}/c11_NAME.XXXXXX") || exit 99
SRCS="bit_shift buffer datatype copy core crc32c ec log msg_ring_buffer raw tmap reader statistics threaded_writer track wr_fsr wr_ts writer backend_posix"
for f in $SRCS; do
  cc -std=gnu11 -O1 -g -Wall -Wextra -Werror -DJLS_OPTIMIZE_CRC_DISABLE=1 \
     -I"$ROOT/include" -I"$ROOT/include_prv" -c "$ROOT/src/$f.c" -o "$T/$f.o" || { rm -rf "$T"; exit 98; }
done
cc -std=gnu11 -O1 -g -w -I"$ROOT/include" "$HERE/demo.c" "$T"/*.o -lm -lpthread -o "$T/demo" \
  || { rm -rf "$T"; exit 97; }
timeout 120 "$T/demo" "$T/demo.jls"
rc=$?
rm -rf "$T"
echo "demo exit code: $rc"
exit $rc
