
int main(int argc, char ** argv) {
    const char * path = (argc > 1) ? argv[1] : "/tmp/c11_d1.jls";
    struct jls_wr_s * wr = NULL;
    struct jls_rd_s * rd = NULL;
    int fail = 0;
    static int64_t ts[MAX_ANNO];
    uint32_t D = (argc > 2) ? (uint32_t) atoi(argv[2]) : 1;
    size_t n = (argc > 3) ? (size_t) atoi(argv[3]) : 20;
    setvbuf(stdout, NULL, _IONBF, 0);
    if (jls_wr_open(&wr, path)) { return 2; }
    struct jls_signal_def_s def = signal_def_(3, JLS_SIGNAL_TYPE_VSR, D);
    if (jls_wr_source_def(wr, &SOURCE_1_) || jls_wr_signal_def(wr, &def)) { return 2; }
    for (size_t i = 0; i < n; ++i) {
        ts[i] = (int64_t) i * 10;
        fail |= wr_one_(wr, 3, ts[i], (uint32_t) i);
    }
    if (jls_wr_close(wr)) { printf("FAIL: close\n"); return 1; }
    if (jls_rd_open(&rd, path)) { printf("FAIL: rd_open\n"); return 1; }
    for (int64_t t = -5; t <= (int64_t) n * 10; t += 5 + (int64_t) n / 20) {
        fail |= check_seek_(rd, 3, ts, n, t);
    }
    jls_rd_close(rd);
    unlink(path);
    printf(fail ? "RESULT: C11 VIOLATED (annotation_decimate_factor = 1)\n" : "RESULT: ok\n");
    return fail ? 1 : 0;
}
