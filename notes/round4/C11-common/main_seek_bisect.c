
// ---------------------------------------------------------------------------
// Demo: a run of equal timestamps inside ONE index chunk (no chunk boundary
// involved), global signal 0, default decimate factor.  Seeking to the
// repeated timestamp must deliver every annotation of the run.
// ---------------------------------------------------------------------------

static int case_(const char * path, const int64_t * ts, size_t n) {
    struct jls_wr_s * wr = NULL;
    struct jls_rd_s * rd = NULL;
    if (jls_wr_open(&wr, path)) { printf("FAIL: jls_wr_open\n"); return 1; }
    for (size_t i = 0; i < n; ++i) {
        if (wr_one_(wr, 0, ts[i], (uint32_t) i)) { return 1; }
    }
    if (jls_wr_close(wr)) { printf("FAIL: jls_wr_close\n"); return 1; }
    if (jls_rd_open(&rd, path)) { printf("FAIL: jls_rd_open\n"); return 1; }
    int fail = 0;
    for (int64_t t = ts[0] - 2; t <= ts[n - 1] + 2; ++t) {
        fail |= check_seek_(rd, 0, ts, n, t);
    }
    fail |= check_stop_(rd, 0, ts[0], 1, n);
    jls_rd_close(rd);
    return fail;
}

int main(int argc, char ** argv) {
    const char * path = (argc > 1) ? argv[1] : "/tmp/c11_seek_bisect.jls";
    int fail = 0;

    // 5 annotations, the middle three share a timestamp.
    static const int64_t ts_a[] = {10, 20, 20, 20, 30};
    fail |= case_(path, ts_a, 5);

    // A longer file: 60 annotations (still a single level-1 index chunk of the
    // global signal), runs of 4 equal timestamps.
    static int64_t ts_b[60];
    for (size_t i = 0; i < 60; ++i) {
        ts_b[i] = -40 + (int64_t) (i / 4) * 3;
    }
    fail |= case_(path, ts_b, 60);

    unlink(path);
    printf(fail ? "RESULT: C11 VIOLATED\n" : "RESULT: ok\n");
    return fail ? 1 : 0;
}
