
// ---------------------------------------------------------------------------
// Demo: non-decreasing timestamps that START BELOW ZERO (JLS time before the
// 2018 epoch on the global signal 0, and on a VSR signal).  Every annotation
// must be accepted and must round-trip; seeks must omit nothing.
// ---------------------------------------------------------------------------

static int case_(const char * path, uint16_t signal_id, const int64_t * ts, size_t n) {
    struct jls_wr_s * wr = NULL;
    struct jls_rd_s * rd = NULL;
    if (jls_wr_open(&wr, path)) { printf("FAIL: jls_wr_open\n"); return 1; }
    if (signal_id) {
        struct jls_signal_def_s def = signal_def_(signal_id, JLS_SIGNAL_TYPE_VSR, 4);
        if (jls_wr_source_def(wr, &SOURCE_1_) || jls_wr_signal_def(wr, &def)) {
            printf("FAIL: signal definition\n");
            return 1;
        }
    }
    int fail = 0;
    for (size_t i = 0; i < n; ++i) {
        fail |= wr_one_(wr, signal_id, ts[i], (uint32_t) i);
    }
    if (jls_wr_close(wr)) { printf("FAIL: jls_wr_close\n"); return 1; }
    if (fail) {
        return 1;
    }
    if (jls_rd_open(&rd, path)) { printf("FAIL: jls_rd_open\n"); return 1; }
    for (int64_t t = ts[0] - 2; t <= ts[n - 1] + 2; ++t) {
        fail |= check_seek_(rd, signal_id, ts, n, t);
    }
    jls_rd_close(rd);
    return fail;
}

int main(int argc, char ** argv) {
    const char * path = (argc > 1) ? argv[1] : "/tmp/c11_order.jls";
    int fail = 0;

    // control: the same shape, starting at zero
    static const int64_t ts_pos[] = {0, 10, 10, 25, 30, 37, 37, 37, 40, 41, 50};
    fail |= case_(path, 0, ts_pos, sizeof(ts_pos) / sizeof(ts_pos[0]));
    fail |= case_(path, 3, ts_pos, sizeof(ts_pos) / sizeof(ts_pos[0]));

    // non-decreasing, but the sequence starts below zero
    static const int64_t ts_neg[] = {-30, -20, -20, -5, 0, 7, 7, 7, 10, 11, 20};
    fail |= case_(path, 0, ts_neg, sizeof(ts_neg) / sizeof(ts_neg[0]));
    fail |= case_(path, 3, ts_neg, sizeof(ts_neg) / sizeof(ts_neg[0]));

    // entirely below zero
    static const int64_t ts_neg2[] = {-300, -200, -200, -50, -40, -40, -3, -2, -1};
    fail |= case_(path, 3, ts_neg2, sizeof(ts_neg2) / sizeof(ts_neg2[0]));

    unlink(path);
    printf(fail ? "RESULT: C11 VIOLATED\n" : "RESULT: ok\n");
    return fail ? 1 : 0;
}
