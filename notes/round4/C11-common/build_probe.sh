#!/bin/sh
# usage: sh seed_out/common/build_probe.sh  (from worktree root)
set -e
ROOT=$(pwd)
T=$(mktemp -d /tmp/c11_probe.XXXXXX)
SRCS="bit_shift buffer datatype copy core crc32c ec log msg_ring_buffer raw tmap reader statistics threaded_writer track wr_fsr wr_ts writer backend_posix"
for f in $SRCS; do
  cc -std=gnu11 -O1 -g -w -DJLS_OPTIMIZE_CRC_DISABLE=1 -I"$ROOT/include" -I"$ROOT/include_prv" -c "$ROOT/src/$f.c" -o "$T/$f.o" &
done
wait
cc -std=gnu11 -O1 -g -I"$ROOT/include" -I"$ROOT/seed_out/common" "$ROOT/seed_out/common/probe.c" "$T"/*.o -lm -lpthread -o "$T/probe"
"$T/probe" "$T/probe.jls"
rc=$?
rm -rf "$T"
exit $rc
