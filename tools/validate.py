#!/usr/bin/env python3
"""Validate MANIFEST.json and evidence/*.json against the harness schemas (needs jsonschema: python3-vt)."""
import json, sys, glob, jsonschema
ok = True
m = json.load(open('/verif/MANIFEST.json'))
jsonschema.validate(m, json.load(open('/root/.vp/MANIFEST.schema.json')))
es = json.load(open('/root/.vp/EVIDENCE.schema.json'))
for c in m['checks']:
    try:
        jsonschema.validate(json.load(open(c['evidence_file'])), es)
    except Exception as e:
        ok = False
        print('BAD', c['evidence_file'], str(e)[:300])
ids = set(json.loads(l)['id'] for l in open('/verif/properties.jsonl'))
claimed = set(c['property_id'] for c in m['checks'])
na = set(x['property_id'] for x in m.get('not_applicable', []))
if claimed | na != ids or claimed & na:
    ok = False
    print('BAD partition', sorted(ids - claimed - na), sorted(claimed & na))
print('valid' if ok else 'INVALID')
sys.exit(0 if ok else 1)
