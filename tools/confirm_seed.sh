#!/bin/sh
# Confirm a seeded change in its scratch worktree: with the patch the library builds, the
# existing suite passes and the demonstration FAILS; without it the demonstration PASSES.
#   tools/confirm_seed.sh <worktree> <seed_out/name>
WT="$1"; D="$WT/$2"
cd "$WT" || exit 2
git checkout -q -- src include include_prv
git apply --check "$D/patch.diff" || { echo "PATCH DOES NOT APPLY"; exit 2; }
git apply "$D/patch.diff"
(cmake -G Ninja -S . -B _build >/dev/null && cmake --build _build 2>&1 | tail -1) || { echo "BUILD FAILED"; git checkout -q -- src include include_prv; exit 2; }
T=$(ctest --test-dir _build -j1 --timeout 300 2>&1 | grep "tests passed")
echo "with patch: suite: $T"
timeout 300 sh "$D/run.sh" >/tmp/confirm_with.log 2>&1; RW=$?
echo "with patch: demo exit $RW"
git checkout -q -- src include include_prv
timeout 300 sh "$D/run.sh" >/tmp/confirm_without.log 2>&1; RO=$?
echo "without patch: demo exit $RO"
case "$T" in *"100% tests passed"*) ;; *) echo "SUITE DOES NOT PASS WITH THE PATCH"; exit 1;; esac
[ $RW -ne 0 ] && [ $RO -eq 0 ] && { echo CONFIRMED; exit 0; }
echo "NOT CONFIRMED"; exit 1
