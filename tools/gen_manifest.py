#!/usr/bin/env python3
"""Regenerates /verif/MANIFEST.json from tables/claims.json (one entry per
claimed property) and tables/not_applicable.json."""
import json, os
V = '/verif'
ids = [json.loads(l)['id'] for l in open(V + '/properties.jsonl')]
claims = json.load(open(V + '/tables/claims.json'))
na = json.load(open(V + '/tables/not_applicable.json'))
checks = []
for i in ids:
    if i in claims:
        c = claims[i]
        checks.append({
            'property_id': i,
            'quick_cmd': './check %s --tier quick' % i,
            'thorough_cmd': './check %s --tier thorough' % i,
            'evidence_file': '/verif/evidence/%s.json' % i,
            'replay_cmd_template': './check %s --replay {path}' % i,
            'engine': 'jlsverif',
            'level_claimed': {'category': 'other', 'text': c['text'], 'design_ref': c.get('design_ref', 'DESIGN.md §4 ' + i)},
            'level_note': c['note'],
            'technique': c['technique'],
        })
nas = []
for i in ids:
    if i not in claims:
        nas.append({'property_id': i, 'reason': na.get(i, 'check not built yet (see DESIGN.md §4 for the plan)')})
m = {
    'version': 1,
    'setup_cmd': 'make -C /verif/tools',
    'hooks': {
        'guard': 'JETPERCH_JLS_VERIF',
        'enable': 'no source hooks: the checks analyse /repo\'s working tree as it is (clang AST/CFG export); the guard names no code',
        'baseline_off_cmd': 'cmake -G Ninja -S /repo -B /repo/_build >/dev/null && cmake --build /repo/_build >/dev/null && ctest --test-dir /repo/_build -j1 --timeout 900',
        'source_commits': [],
        'add_only': True,
    },
    'engines': [
        {'name': 'jlsx', 'path': 'tools/jlsx/jlsx.cc', 'serves_properties': sorted(claims), 'kind_free_text': 'clang-14 LibTooling exporter: per-function event CFG, typed expression trees, record layouts, enums, global initialisers'},
        {'name': 'jlsverif', 'path': 'jlsverif/', 'serves_properties': sorted(claims), 'kind_free_text': 'python rule engines over the export: dominators, must-pass-through with same-variable branch refinement, call graph / who-may-call, locksets, typestate, taint to constant-extent subscripts, finite-domain evaluation, serializer/parser agreement, GF(2) abstract interpretation of the CRC kernels'},
    ],
    'checks': checks,
    'notes': 'Static analysis only (DESIGN.md). Exit 0 held / 1 VIOLATION / 2 analysis broken. known_findings.json lists recorded genuine defects; tables/exceptions.json the named exceptions with reasons.',
    'not_applicable': nas,
}
json.dump(m, open(V + '/MANIFEST.json', 'w'), indent=1)
print('claimed', len(checks), 'not_applicable', len(nas))
