/* stub for analysing crc32c_arm_neon.c with --target=aarch64 (no aarch64 sysroot in this image) */
#ifndef VERIF_STUB_ASSERT_H
#define VERIF_STUB_ASSERT_H
#define assert(x) ((void) 0)
#endif
