// jlsx — event-CFG exporter for the jls static checks (clang 14 LibTooling).
//
// usage: jlsx <repo-root> <out.json> <source.c> -- <compile flags>
//
// For every function definition, record, enum and file-scope variable that is
// spelled in a file below <repo-root> it writes one JSON record (DESIGN.md
// Appendix A).  No rule lives here: the exporter only makes the resolved
// program (callees, field identities, types, constant values, layouts, CFG
// edges) available to the Python engines.

#include "clang/AST/ASTConsumer.h"
#include "clang/AST/ASTContext.h"
#include "clang/AST/Decl.h"
#include "clang/AST/Expr.h"
#include "clang/AST/RecordLayout.h"
#include "clang/AST/RecursiveASTVisitor.h"
#include "clang/AST/Stmt.h"
#include "clang/Analysis/CFG.h"
#include "clang/Frontend/CompilerInstance.h"
#include "clang/Frontend/FrontendAction.h"
#include "clang/Lex/Lexer.h"
#include "clang/Tooling/CompilationDatabase.h"
#include "clang/Tooling/Tooling.h"
#include "llvm/Support/JSON.h"
#include "llvm/Support/raw_ostream.h"

#include <map>
#include <string>

using namespace clang;
namespace json = llvm::json;

static std::string gRoot;
static std::string gOut;
static int gErrors = 0;

namespace {

class Exporter {
public:
  explicit Exporter(ASTContext &C) : Ctx(C), SM(C.getSourceManager()) {}

  ASTContext &Ctx;
  SourceManager &SM;
  std::map<const Stmt *, int> Ids;

  int idOf(const Stmt *S) {
    auto It = Ids.find(S);
    if (It != Ids.end()) return It->second;
    int N = (int)Ids.size() + 1;
    Ids[S] = N;
    return N;
  }

  std::string fileOf(SourceLocation L) {
    if (L.isInvalid()) return "";
    SourceLocation E = SM.getExpansionLoc(L);
    auto *FE = SM.getFileEntryForID(SM.getFileID(E));
    if (!FE) return "";
    llvm::StringRef P = FE->tryGetRealPathName();
    if (P.empty()) P = FE->getName();
    return P.str();
  }
  unsigned lineOf(SourceLocation L) {
    if (L.isInvalid()) return 0;
    return SM.getExpansionLineNumber(L);
  }
  bool inRepo(SourceLocation L) {
    std::string F = fileOf(L);
    return F.compare(0, gRoot.size(), gRoot) == 0;
  }
  std::string rel(const std::string &F) {
    if (F.compare(0, gRoot.size(), gRoot) == 0) {
      std::string R = F.substr(gRoot.size());
      while (!R.empty() && R[0] == '/') R.erase(0, 1);
      return R;
    }
    return F;
  }

  // ---- types -------------------------------------------------------------
  std::string ty(QualType T, int Depth = 0) {
    if (T.isNull()) return "?";
    T = T.getCanonicalType();
    const Type *P = T.getTypePtr();
    if (P->isVoidType()) return "v";
    if (P->isBooleanType()) return "u1";
    if (const auto *ET = P->getAs<EnumType>()) {
      std::string N = ET->getDecl()->getNameAsString();
      if (N.empty())
        if (auto *TD = ET->getDecl()->getTypedefNameForAnonDecl()) N = TD->getNameAsString();
      return "e" + std::to_string(Ctx.getTypeSize(T)) + ":" + N;
    }
    if (P->isIntegerType()) {
      return std::string(P->isSignedIntegerType() ? "i" : "u") + std::to_string(Ctx.getTypeSize(T));
    }
    if (P->isRealFloatingType()) return "f" + std::to_string(Ctx.getTypeSize(T));
    if (P->isPointerType()) {
      if (Depth > 2) return "p";
      return "p:" + ty(P->getPointeeType(), Depth + 1);
    }
    if (const auto *RT = P->getAs<RecordType>()) {
      std::string N = RT->getDecl()->getNameAsString();
      if (N.empty())
        if (auto *TD = RT->getDecl()->getTypedefNameForAnonDecl()) N = TD->getNameAsString();
      return "s:" + N;
    }
    if (const auto *AT = Ctx.getAsConstantArrayType(T)) {
      return "a" + std::to_string(AT->getSize().getZExtValue()) + ":" + ty(AT->getElementType(), Depth + 1);
    }
    if (const auto *AT = Ctx.getAsArrayType(T)) return "a?:" + ty(AT->getElementType(), Depth + 1);
    if (P->isFunctionType()) return "fn";
    return "?";
  }

  // ---- macros ------------------------------------------------------------
  // Name of the outermost macro whose expansion is exactly this expression
  // (e.g. JLS_ERROR_NOT_FOUND, NAN, false, JLS_SIGNAL_COUNT).  Only reported
  // when both ends of the expression come from the same macro expansion.
  std::string macroOf(const Stmt *S) {
    SourceLocation B = S->getBeginLoc(), E = S->getEndLoc();
    if (!B.isMacroID() || !E.isMacroID()) return "";
    // walk to the outermost expansion in which S begins at macro start.
    std::string Name;
    SourceLocation L = B;
    while (L.isMacroID()) {
      if (SM.isMacroBodyExpansion(L)) {
        SourceLocation ExpB;
        if (Lexer::isAtStartOfMacroExpansion(L, SM, Ctx.getLangOpts(), &ExpB)) {
          Name = Lexer::getImmediateMacroName(L, SM, Ctx.getLangOpts()).str();
          L = SM.getImmediateExpansionRange(L).getBegin();
          continue;
        }
        // not at start: the innermost macro that contains it
        if (Name.empty()) return "";
        return Name;
      }
      // macro argument expansion: step out
      L = SM.getImmediateSpellingLoc(L);
      if (!L.isMacroID()) break;
      // for argument, go to where the argument was spelled
    }
    return Name;
  }

  // ---- expressions -------------------------------------------------------
  static const Expr *strip(const Expr *E) {
    while (E) {
      if (auto *P = dyn_cast<ParenExpr>(E)) { E = P->getSubExpr(); continue; }
      if (auto *C = dyn_cast<ConstantExpr>(E)) { E = C->getSubExpr(); continue; }
      if (auto *IC = dyn_cast<ImplicitCastExpr>(E)) {
        switch (IC->getCastKind()) {
        case CK_LValueToRValue: case CK_NoOp: case CK_FunctionToPointerDecay:
        case CK_ArrayToPointerDecay: case CK_BuiltinFnToFnPtr:
          E = IC->getSubExpr(); continue;
        default: break;
        }
      }
      break;
    }
    return E;
  }

  json::Value expr(const Expr *E0) {
    if (!E0) return nullptr;
    const Expr *E = strip(E0);
    json::Object O;
    O["id"] = idOf(E);
    O["t"] = ty(E->getType());
    O["ln"] = (int64_t)lineOf(E->getBeginLoc());
    std::string M = macroOf(E0);
    if (!M.empty()) O["m"] = M;
    json::Array Kids;
    bool wantConst = true;

    if (auto *IL = dyn_cast<IntegerLiteral>(E)) {
      O["op"] = "lit";
      O["c"] = IL->getType()->isSignedIntegerType() ? (int64_t)IL->getValue().getSExtValue()
                                                    : (int64_t)IL->getValue().getZExtValue();
      if (!IL->getType()->isSignedIntegerType() && IL->getValue().getZExtValue() > (uint64_t)INT64_MAX)
        O["cu"] = std::to_string(IL->getValue().getZExtValue());
      wantConst = false;
    } else if (auto *CL = dyn_cast<CharacterLiteral>(E)) {
      O["op"] = "lit"; O["c"] = (int64_t)CL->getValue(); wantConst = false;
    } else if (auto *FL = dyn_cast<FloatingLiteral>(E)) {
      O["op"] = "flit"; O["f"] = FL->getValueAsApproximateDouble(); wantConst = false;
    } else if (auto *SL = dyn_cast<StringLiteral>(E)) {
      O["op"] = "str";
      if (SL->getCharByteWidth() == 1) O["s"] = SL->getBytes().str();
      O["len"] = (int64_t)SL->getByteLength();
      wantConst = false;
    } else if (auto *DR = dyn_cast<DeclRefExpr>(E)) {
      O["op"] = "ref";
      const ValueDecl *D = DR->getDecl();
      O["name"] = D->getNameAsString();
      if (isa<ParmVarDecl>(D)) O["rk"] = "param";
      else if (auto *VD = dyn_cast<VarDecl>(D)) {
        if (VD->isLocalVarDecl() && !VD->isStaticLocal()) O["rk"] = "local";
        else O["rk"] = "global";
      } else if (isa<FunctionDecl>(D)) O["rk"] = "func";
      else if (isa<EnumConstantDecl>(D)) O["rk"] = "enum";
      else O["rk"] = "other";
    } else if (auto *ME = dyn_cast<MemberExpr>(E)) {
      O["op"] = "member";
      O["field"] = ME->getMemberDecl()->getNameAsString();
      O["arrow"] = ME->isArrow();
      if (auto *FD = dyn_cast<FieldDecl>(ME->getMemberDecl())) {
        const RecordDecl *RD = FD->getParent();
        std::string N = RD->getNameAsString();
        if (N.empty())
          if (auto *TD = RD->getTypedefNameForAnonDecl()) N = TD->getNameAsString();
        O["rec"] = N;
      }
      Kids.push_back(expr(ME->getBase()));
    } else if (auto *AS = dyn_cast<ArraySubscriptExpr>(E)) {
      O["op"] = "sub";
      const Expr *B = strip(AS->getBase());
      if (const auto *AT = Ctx.getAsConstantArrayType(B->getType()))
        O["extent"] = (int64_t)AT->getSize().getZExtValue();
      Kids.push_back(expr(AS->getBase()));
      Kids.push_back(expr(AS->getIdx()));
    } else if (auto *CE = dyn_cast<CallExpr>(E)) {
      O["op"] = "call";
      if (const FunctionDecl *FD = CE->getDirectCallee()) {
        O["callee"] = FD->getNameAsString();
        if (FD->getBuiltinID()) O["builtin"] = true;
      } else {
        O["fn"] = expr(CE->getCallee());
      }
      for (const Expr *A : CE->arguments()) Kids.push_back(expr(A));
    } else if (auto *UO = dyn_cast<UnaryOperator>(E)) {
      O["op"] = "un";
      std::string S = UnaryOperator::getOpcodeStr(UO->getOpcode()).str();
      if (UO->isPostfix()) S = "post" + S; else if (UO->isIncrementDecrementOp()) S = "pre" + S;
      O["o"] = S;
      Kids.push_back(expr(UO->getSubExpr()));
    } else if (auto *BO = dyn_cast<BinaryOperator>(E)) {
      O["op"] = "bin";
      O["o"] = BO->getOpcodeStr().str();
      if (auto *CAO = dyn_cast<CompoundAssignOperator>(BO))
        O["ct"] = ty(CAO->getComputationResultType());
      Kids.push_back(expr(BO->getLHS()));
      Kids.push_back(expr(BO->getRHS()));
    } else if (auto *CO = dyn_cast<ConditionalOperator>(E)) {
      O["op"] = "cond";
      Kids.push_back(expr(CO->getCond()));
      Kids.push_back(expr(CO->getTrueExpr()));
      Kids.push_back(expr(CO->getFalseExpr()));
    } else if (auto *CA = dyn_cast<CastExpr>(E)) {
      O["op"] = "cast";
      O["ck"] = CA->getCastKindName();
      O["impl"] = isa<ImplicitCastExpr>(CA);
      Kids.push_back(expr(CA->getSubExpr()));
    } else if (auto *UE = dyn_cast<UnaryExprOrTypeTraitExpr>(E)) {
      O["op"] = "sizeof";
      if (UE->isArgumentType()) O["of"] = ty(UE->getArgumentType());
      else { O["of"] = ty(UE->getArgumentExpr()->getType()); O["arg"] = expr(UE->getArgumentExpr()); }
    } else if (auto *ILE = dyn_cast<InitListExpr>(E)) {
      O["op"] = "init";
      const InitListExpr *Sem = ILE->isSemanticForm() ? ILE : (ILE->getSemanticForm() ? ILE->getSemanticForm() : ILE);
      if (const auto *RT = Sem->getType()->getAs<RecordType>()) {
        json::Array Names;
        for (const FieldDecl *F : RT->getDecl()->fields()) Names.push_back(F->getNameAsString());
        O["fields"] = std::move(Names);
      }
      for (const Expr *I : Sem->inits()) Kids.push_back(expr(I));
      wantConst = false;
    } else if (auto *CLE = dyn_cast<CompoundLiteralExpr>(E)) {
      O["op"] = "compound";
      Kids.push_back(expr(CLE->getInitializer()));
      wantConst = false;
    } else if (isa<ImplicitValueInitExpr>(E)) {
      O["op"] = "zeroinit"; wantConst = false;
    } else if (auto *OO = dyn_cast<OffsetOfExpr>(E)) {
      (void)OO; O["op"] = "offsetof";
    } else if (auto *SE = dyn_cast<StmtExpr>(E)) {
      (void)SE; O["op"] = "stmtexpr"; wantConst = false;
    } else if (auto *PE = dyn_cast<PredefinedExpr>(E)) {
      (void)PE; O["op"] = "str"; O["s"] = "__func__"; wantConst = false;
    } else if (auto *DIE = dyn_cast<DesignatedInitExpr>(E)) {
      O["op"] = "desig"; Kids.push_back(expr(DIE->getInit())); wantConst = false;
    } else {
      O["op"] = "other";
      O["cls"] = E->getStmtClassName();
      for (const Stmt *C : E->children())
        if (auto *CEx = dyn_cast_or_null<Expr>(C)) Kids.push_back(expr(CEx));
    }
    if (wantConst && !E->isValueDependent() && (E->getType()->isIntegralOrEnumerationType())) {
      Expr::EvalResult R;
      if (E->EvaluateAsInt(R, Ctx, Expr::SE_NoSideEffects)) {
        llvm::APSInt V = R.Val.getInt();
        if (V.isSigned() || V.getActiveBits() <= 63) O["c"] = (int64_t)V.getExtValue();
        else { O["c"] = (int64_t)V.getExtValue(); O["cu"] = std::to_string(V.getZExtValue()); }
      }
    } else if (wantConst && E->getType()->isRealFloatingType()) {
      Expr::EvalResult R;
      if (E->EvaluateAsRValue(R, Ctx) && R.Val.isFloat() && !R.HasSideEffects) {
        double D = R.Val.getFloat().convertToDouble();
        if (D != D) O["fc"] = "nan";
        else if (D > 1.7976931348623157e308 || D < -1.7976931348623157e308) O["fc"] = D > 0 ? "inf" : "-inf";
        else O["fc"] = D;
      }
    }
    if (!Kids.empty()) O["k"] = std::move(Kids);
    return std::move(O);
  }

  // ---- CFG -----------------------------------------------------------------
  json::Value blockLabel(const CFGBlock *B) {
    const Stmt *L = B->getLabel();
    if (!L) return nullptr;
    json::Object O;
    if (auto *CS = dyn_cast<CaseStmt>(L)) {
      json::Array Vs;
      // a block can carry nested case labels: case A: case B: stmt
      const Stmt *S = CS;
      while (S) {
        if (auto *C = dyn_cast<CaseStmt>(S)) {
          Expr::EvalResult R;
          if (C->getLHS()->EvaluateAsInt(R, Ctx)) Vs.push_back((int64_t)R.Val.getInt().getExtValue());
          json::Value Tree = expr(C->getLHS());
          (void)Tree;
          S = C->getSubStmt();
        } else if (auto *D = dyn_cast<DefaultStmt>(S)) {
          O["default"] = true; S = D->getSubStmt();
        } else break;
      }
      O["case"] = std::move(Vs);
      // keep enum spelling of the first label for reports
      const Expr *LH = strip(CS->getLHS());
      if (auto *DR = dyn_cast<DeclRefExpr>(LH)) O["name"] = DR->getDecl()->getNameAsString();
    } else if (auto *DS = dyn_cast<DefaultStmt>(L)) {
      O["default"] = true;
      const Stmt *S = DS->getSubStmt();
      json::Array Vs;
      while (S) {
        if (auto *C = dyn_cast<CaseStmt>(S)) {
          Expr::EvalResult R;
          if (C->getLHS()->EvaluateAsInt(R, Ctx)) Vs.push_back((int64_t)R.Val.getInt().getExtValue());
          S = C->getSubStmt();
        } else break;
      }
      if (!Vs.empty()) O["case"] = std::move(Vs);
    } else if (auto *LS = dyn_cast<LabelStmt>(L)) {
      O["label"] = LS->getName();
    }
    return std::move(O);
  }

  json::Value function(const FunctionDecl *FD) {
    json::Object F;
    Ids.clear();
    F["name"] = FD->getNameAsString();
    F["file"] = rel(fileOf(FD->getLocation()));
    F["line"] = (int64_t)lineOf(FD->getLocation());
    F["end_line"] = (int64_t)lineOf(FD->getBody()->getEndLoc());
    F["static"] = FD->getStorageClass() == SC_Static;
    F["inline"] = FD->isInlineSpecified();
    F["ret"] = ty(FD->getReturnType());
    bool Api = false;
    for (const FunctionDecl *R : FD->redecls()) {
      std::string P = rel(fileOf(R->getLocation()));
      if (P.compare(0, 12, "include/jls/") == 0) Api = true;
    }
    F["api"] = Api;
    json::Array Params;
    for (const ParmVarDecl *P : FD->parameters()) {
      json::Object PO; PO["name"] = P->getNameAsString(); PO["t"] = ty(P->getType());
      Params.push_back(std::move(PO));
    }
    F["params"] = std::move(Params);

    CFG::BuildOptions BO;
    BO.setAllAlwaysAdd();
    BO.PruneTriviallyFalseEdges = true;
    BO.AddImplicitDtors = false;
    BO.AddEHEdges = false;
    std::unique_ptr<CFG> G = CFG::buildCFG(FD, FD->getBody(), &Ctx, BO);
    if (!G) { F["cfg_error"] = true; ++gErrors; return std::move(F); }
    F["entry"] = (int64_t)G->getEntry().getBlockID();
    F["exit"] = (int64_t)G->getExit().getBlockID();
    json::Array Blocks;
    for (const CFGBlock *B : *G) {
      json::Object BJ;
      BJ["id"] = (int64_t)B->getBlockID();
      { json::Value L = blockLabel(B); if (L.kind() != json::Value::Null) BJ["label"] = std::move(L); }
      json::Array Ev;
      for (const CFGElement &El : *B) {
        auto CS = El.getAs<CFGStmt>();
        if (!CS) continue;
        const Stmt *S = CS->getStmt();
        json::Object E;
        if (auto *CE = dyn_cast<CallExpr>(S)) {
          E["k"] = "call"; E["e"] = expr(CE);
        } else if (auto *BOp = dyn_cast<BinaryOperator>(S)) {
          if (!BOp->isAssignmentOp()) continue;
          E["k"] = "store"; E["e"] = expr(BOp);
        } else if (auto *UO = dyn_cast<UnaryOperator>(S)) {
          if (!UO->isIncrementDecrementOp()) continue;
          E["k"] = "store"; E["e"] = expr(UO);
        } else if (auto *ASE = dyn_cast<ArraySubscriptExpr>(S)) {
          // position marker: where the element access is evaluated (branch-local
          // inside ?: and && / ||); carries only the node id, not a second tree
          E["k"] = "sub"; E["node"] = idOf(ASE);
        } else if (auto *RS = dyn_cast<ReturnStmt>(S)) {
          E["k"] = "ret"; E["e"] = expr(RS->getRetValue());
        } else if (auto *DS = dyn_cast<DeclStmt>(S)) {
          for (const Decl *D : DS->decls()) {
            auto *VD = dyn_cast<VarDecl>(D);
            if (!VD) continue;
            json::Object DE;
            DE["k"] = "decl"; DE["name"] = VD->getNameAsString(); DE["t"] = ty(VD->getType());
            DE["ln"] = (int64_t)lineOf(VD->getLocation());
            DE["static"] = VD->isStaticLocal();
            DE["e"] = expr(VD->getInit());
            Ev.push_back(std::move(DE));
          }
          continue;
        } else continue;
        E["ln"] = (int64_t)lineOf(S->getBeginLoc());
        Ev.push_back(std::move(E));
      }
      BJ["ev"] = std::move(Ev);
      if (const Stmt *T = B->getTerminatorStmt()) {
        json::Object TJ;
        TJ["kind"] = T->getStmtClassName();
        TJ["ln"] = (int64_t)lineOf(T->getBeginLoc());
        if (auto *BOp = dyn_cast<BinaryOperator>(T)) TJ["o"] = BOp->getOpcodeStr().str();
        if (auto *GS = dyn_cast<GotoStmt>(T)) TJ["label"] = GS->getLabel()->getName();
        BJ["term"] = std::move(TJ);
      }
      if (B->succ_size() >= 2) {
        if (const Expr *C = B->getLastCondition()) BJ["cond"] = expr(C);
        else if (const Stmt *TC = B->getTerminatorCondition())
          if (auto *TE = dyn_cast<Expr>(TC)) BJ["cond"] = expr(TE);
      }
      if (const Stmt *LT = B->getLoopTarget()) BJ["loop_target"] = (int64_t)lineOf(LT->getBeginLoc());
      json::Array Succs;
      for (auto It = B->succ_begin(); It != B->succ_end(); ++It) {
        const CFGBlock *S = It->getReachableBlock();
        if (S) Succs.push_back((int64_t)S->getBlockID()); else Succs.push_back(nullptr);
      }
      BJ["succ"] = std::move(Succs);
      Blocks.push_back(std::move(BJ));
    }
    F["blocks"] = std::move(Blocks);
    return std::move(F);
  }

  json::Value record(const RecordDecl *RD) {
    json::Object R;
    std::string N = RD->getNameAsString();
    if (N.empty())
      if (auto *TD = RD->getTypedefNameForAnonDecl()) N = TD->getNameAsString();
    R["name"] = N;
    R["union"] = RD->isUnion();
    R["file"] = rel(fileOf(RD->getLocation()));
    R["line"] = (int64_t)lineOf(RD->getLocation());
    const ASTRecordLayout &L = Ctx.getASTRecordLayout(RD);
    R["size"] = (int64_t)L.getSize().getQuantity();
    R["align"] = (int64_t)L.getAlignment().getQuantity();
    json::Array Fs;
    unsigned I = 0;
    for (const FieldDecl *F : RD->fields()) {
      json::Object FJ;
      FJ["name"] = F->getNameAsString();
      FJ["t"] = ty(F->getType());
      FJ["off_bits"] = (int64_t)L.getFieldOffset(I);
      if (!F->getType()->isIncompleteType())
        FJ["size_bits"] = (int64_t)Ctx.getTypeSize(F->getType());
      if (F->isBitField()) FJ["bitfield"] = (int64_t)F->getBitWidthValue(Ctx);
      Fs.push_back(std::move(FJ));
      ++I;
    }
    R["fields"] = std::move(Fs);
    return std::move(R);
  }

  json::Value enumDecl(const EnumDecl *ED) {
    json::Object E;
    std::string N = ED->getNameAsString();
    if (N.empty())
      if (auto *TD = ED->getTypedefNameForAnonDecl()) N = TD->getNameAsString();
    E["name"] = N;
    E["file"] = rel(fileOf(ED->getLocation()));
    E["line"] = (int64_t)lineOf(ED->getLocation());
    json::Array Is;
    for (const EnumConstantDecl *C : ED->enumerators()) {
      json::Object CJ; CJ["name"] = C->getNameAsString(); CJ["v"] = (int64_t)C->getInitVal().getExtValue();
      Is.push_back(std::move(CJ));
    }
    E["items"] = std::move(Is);
    return std::move(E);
  }

  json::Value global(const VarDecl *VD) {
    json::Object G;
    Ids.clear();
    G["name"] = VD->getNameAsString();
    G["t"] = ty(VD->getType());
    G["const"] = VD->getType().isConstQualified() ||
                 (Ctx.getAsArrayType(VD->getType()) && Ctx.getAsArrayType(VD->getType())->getElementType().isConstQualified());
    G["static"] = VD->getStorageClass() == SC_Static;
    G["file"] = rel(fileOf(VD->getLocation()));
    G["line"] = (int64_t)lineOf(VD->getLocation());
    if (const auto *AT = Ctx.getAsConstantArrayType(VD->getType())) G["extent"] = (int64_t)AT->getSize().getZExtValue();
    if (const Expr *I = VD->getInit()) G["init"] = expr(I);
    return std::move(G);
  }
};

class Consumer : public ASTConsumer {
public:
  void HandleTranslationUnit(ASTContext &Ctx) override {
    if (Ctx.getDiagnostics().hasErrorOccurred()) ++gErrors;
    Exporter X(Ctx);
    json::Array Fns, Recs, Enums, Globs;
    struct V : RecursiveASTVisitor<V> {
      Exporter &X; json::Array &Fns, &Recs, &Enums, &Globs;
      V(Exporter &X, json::Array &F, json::Array &R, json::Array &E, json::Array &G) : X(X), Fns(F), Recs(R), Enums(E), Globs(G) {}
      bool VisitFunctionDecl(FunctionDecl *FD) {
        if (FD->doesThisDeclarationHaveABody() && X.inRepo(FD->getLocation())) Fns.push_back(X.function(FD));
        return true;
      }
      bool VisitRecordDecl(RecordDecl *RD) {
        if (RD->isCompleteDefinition() && X.inRepo(RD->getLocation()) && !RD->isInvalidDecl()) Recs.push_back(X.record(RD));
        return true;
      }
      bool VisitEnumDecl(EnumDecl *ED) {
        if (ED->isCompleteDefinition() && X.inRepo(ED->getLocation())) Enums.push_back(X.enumDecl(ED));
        return true;
      }
      bool VisitVarDecl(VarDecl *VD) {
        if (VD->isFileVarDecl() && VD->isThisDeclarationADefinition() && X.inRepo(VD->getLocation())) Globs.push_back(X.global(VD));
        return true;
      }
    } Vis(X, Fns, Recs, Enums, Globs);
    Vis.TraverseDecl(Ctx.getTranslationUnitDecl());
    json::Object U;
    U["main_file"] = X.rel(X.fileOf(X.SM.getLocForStartOfFile(X.SM.getMainFileID())));
    U["functions"] = std::move(Fns);
    U["records"] = std::move(Recs);
    U["enums"] = std::move(Enums);
    U["globals"] = std::move(Globs);
    U["errors"] = gErrors;
    std::error_code EC;
    llvm::raw_fd_ostream OS(gOut, EC);
    if (EC) { llvm::errs() << "jlsx: cannot write " << gOut << "\n"; ++gErrors; return; }
    OS << json::Value(std::move(U)) << "\n";
  }
};

class Action : public ASTFrontendAction {
public:
  std::unique_ptr<ASTConsumer> CreateASTConsumer(CompilerInstance &, llvm::StringRef) override {
    return std::make_unique<Consumer>();
  }
};

} // namespace

int main(int argc, const char **argv) {
  if (argc < 5) {
    llvm::errs() << "usage: jlsx <repo-root> <out.json> <source.c> -- <flags>\n";
    return 2;
  }
  gRoot = argv[1];
  gOut = argv[2];
  std::string Src = argv[3];
  std::vector<std::string> Flags;
  int I = 4;
  if (std::string(argv[I]) == "--") ++I;
  for (; I < argc; ++I) Flags.push_back(argv[I]);
  clang::tooling::FixedCompilationDatabase DB(".", Flags);
  clang::tooling::ClangTool Tool(DB, {Src});
  int RC = Tool.run(clang::tooling::newFrontendActionFactory<Action>().get());
  if (RC != 0 || gErrors) return 1;
  return 0;
}
