#!/usr/bin/env python3
"""Regenerate tables/floors.json from the evidence files of a run on a tree whose
instances were confirmed by hand: the floor of a rule is 60 % of its obligation
count (at least 1).  Run after adding rules and re-running every check."""
import glob
import json
import math
import os
import re

VERIF = os.path.dirname(os.path.dirname(os.path.abspath(__file__)))
out = {}
for p in sorted(glob.glob(os.path.join(VERIF, 'evidence', 'C*.json'))):
    ev = json.load(open(p))
    prop = os.path.basename(p)[:-5]
    out[prop] = {r['id']: max(1, int(math.floor(r['instances'] * 0.6)))
                 for r in ev['coverage'].get('rules', []) if r.get('instances')}
json.dump(out, open(os.path.join(VERIF, 'tables', 'floors.json'), 'w'), indent=1, sort_keys=True)
print('floors for', len(out), 'properties')
