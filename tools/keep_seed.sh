#!/bin/sh
# keep a confirmed seeded change:  tools/keep_seed.sh <worktree> <seed_out/name> <seed-id> <PROP> "<needs>"
WT="$1"; SRC="$WT/$2"; ID="$3"; PROP="$4"; NEEDS="$5"
DST=/verif/seeded/$ID
mkdir -p "$DST"
cp "$SRC/patch.diff" "$DST/patch.diff"
cp "$SRC/demo.c" "$DST/" 2>/dev/null; cp "$SRC"/*.c "$DST/" 2>/dev/null; cp "$SRC/run.sh" "$DST/" 2>/dev/null; cp "$SRC/notes.md" "$DST/notes.md" 2>/dev/null
python3 - "$DST" "$PROP" "$NEEDS" "$ID" <<'PY'
import json,sys
dst,prop,needs,sid=sys.argv[1:5]
json.dump({"id":sid,"property":prop,"needs_to_manifest":needs,"origin":"independent sub-agent given only the property text and a scratch worktree",
 "confirmed":"tools/confirm_seed.sh in the scratch worktree: builds with -Werror, 11/11 ctest programs pass with the patch, demo fails with it and passes without it",
 "files":["patch.diff","demo.c","run.sh","notes.md"]}, open(dst+'/meta.json','w'), indent=1)
PY
echo kept $DST
